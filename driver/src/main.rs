// cwfacts: a rustc_private driver that exports the MIR of a crate as JSON "facts".
//
// It contains no rule logic.  It is injected with RUSTC_WORKSPACE_WRAPPER under
// `cargo +nightly check`; for every workspace crate it writes exactly one file
// $CWFACTS_OUT/<crate>.json (one write per process).
#![feature(rustc_private)]
#![allow(clippy::all)]

extern crate rustc_abi;
extern crate rustc_ast;
extern crate rustc_ast_pretty;
extern crate rustc_driver;
extern crate rustc_feature;
extern crate rustc_hir;
extern crate rustc_interface;
extern crate rustc_middle;
extern crate rustc_session;
extern crate rustc_span;

mod json;

use json::J;
use rustc_driver::Compilation;
use rustc_hir::def::DefKind;
use rustc_hir::def_id::{DefId, LocalDefId};
use rustc_middle::mir::{
    self, AggregateKind, BasicBlockData, Body, BorrowKind, CastKind, ConstValue, Operand, Place,
    ProjectionElem, Rvalue, StatementKind, TerminatorKind,
};
use rustc_middle::ty::print::{with_crate_prefix, with_no_trimmed_paths};
use rustc_middle::ty::{self, Ty, TyCtxt};
use rustc_span::Span;
use std::collections::BTreeMap;

#[derive(Default)]
struct Cb {
    /// helper / tool attributes (`#[serde(..)]` ...) of items, variants and fields, keyed by the span of the name they sit on;
    /// read from the expanded AST because HIR lowering drops attributes rustc does not know
    attrs: BTreeMap<(u32, u32), Vec<String>>,
}

struct AttrCollector<'a> {
    out: &'a mut BTreeMap<(u32, u32), Vec<String>>,
}

impl<'a> AttrCollector<'a> {
    fn note(&mut self, sp: Span, attrs: &[rustc_ast::Attribute]) {
        let v: Vec<String> = attrs
            .iter()
            .filter(|a| !a.is_doc_comment())
            .filter(|a| match a.name() {
                // attributes rustc itself interprets say nothing about generated code
                Some(n) => !rustc_feature::is_builtin_attr_name(n),
                None => true,
            })
            .map(|a| rustc_ast_pretty::pprust::attribute_to_string(a))
            .collect();
        if !v.is_empty() {
            let d = sp.data();
            self.out.entry((d.lo.0, d.hi.0)).or_default().extend(v);
        }
    }
}

impl<'a, 'ast> rustc_ast::visit::Visitor<'ast> for AttrCollector<'a> {
    fn visit_item(&mut self, i: &'ast rustc_ast::Item) {
        if let Some(id) = i.kind.ident() {
            self.note(id.span, &i.attrs);
        }
        rustc_ast::visit::walk_item(self, i);
    }
    fn visit_variant(&mut self, v: &'ast rustc_ast::Variant) {
        self.note(v.ident.span, &v.attrs);
        rustc_ast::visit::walk_variant(self, v);
    }
    fn visit_field_def(&mut self, f: &'ast rustc_ast::FieldDef) {
        self.note(f.ident.map(|i| i.span).unwrap_or(f.span), &f.attrs);
        rustc_ast::visit::walk_field_def(self, f);
    }
}

impl rustc_driver::Callbacks for Cb {
    fn after_expansion<'tcx>(
        &mut self,
        _compiler: &rustc_interface::interface::Compiler,
        tcx: TyCtxt<'tcx>,
    ) -> Compilation {
        if std::env::var("CWFACTS_OUT").is_ok() {
            let r = tcx.resolver_for_lowering().borrow();
            let krate = &r.1;
            let mut c = AttrCollector { out: &mut self.attrs };
            rustc_ast::visit::walk_crate(&mut c, krate);
        }
        Compilation::Continue
    }

    fn after_analysis<'tcx>(
        &mut self,
        _compiler: &rustc_interface::interface::Compiler,
        tcx: TyCtxt<'tcx>,
    ) -> Compilation {
        let out = match std::env::var("CWFACTS_OUT") {
            Ok(o) => o,
            Err(_) => return Compilation::Continue,
        };
        let cname = tcx.crate_name(rustc_hir::def_id::LOCAL_CRATE).to_string();
        let only = std::env::var("CWFACTS_CRATES").unwrap_or_default();
        if !only.is_empty() && !only.split(',').any(|c| c == cname) {
            return Compilation::Continue;
        }
        let mut ex = Exporter { tcx, cname: cname.clone(), adts: BTreeMap::new(), pending_adts: Vec::new(), attrs: std::mem::take(&mut self.attrs) };
        let j = ex.export();
        let path = format!("{}/{}.json", out, cname);
        let tmp = format!("{}.tmp{}", path, std::process::id());
        std::fs::write(&tmp, j.to_string()).expect("write facts");
        std::fs::rename(&tmp, &path).expect("rename facts");
        Compilation::Continue
    }
}

struct Exporter<'tcx> {
    tcx: TyCtxt<'tcx>,
    cname: String,
    adts: BTreeMap<String, J>,
    pending_adts: Vec<DefId>,
    attrs: BTreeMap<(u32, u32), Vec<String>>,
}

fn s(x: impl Into<String>) -> J {
    J::Str(x.into())
}

impl<'tcx> Exporter<'tcx> {
    fn fix(&self, p: String) -> String {
        // with_crate_prefix prints local paths as `crate::…`; make them absolute.
        let pre = format!("{}::", self.cname);
        let mut out = String::with_capacity(p.len() + 16);
        let b = p.as_bytes();
        let mut i = 0;
        while i < b.len() {
            if p[i..].starts_with("crate::")
                && (i == 0 || !(b[i - 1].is_ascii_alphanumeric() || b[i - 1] == b'_'))
            {
                out.push_str(&pre);
                i += 7;
            } else {
                let ch = p[i..].chars().next().unwrap();
                out.push(ch);
                i += ch.len_utf8();
            }
        }
        out
    }

    fn path(&self, did: DefId) -> String {
        let p = with_no_trimmed_paths!(with_crate_prefix!(self.tcx.def_path_str(did)));
        self.fix(p)
    }

    fn dp(&self, did: DefId) -> String {
        format!("{}{}", self.tcx.crate_name(did.krate), self.tcx.def_path(did).to_string_no_crate_verbose())
    }

    fn ctor_info(&self, fid: DefId) -> Option<J> {
        let tcx = self.tcx;
        if let DefKind::Ctor(of, _) = tcx.def_kind(fid) {
            let vdid = tcx.parent(fid);
            match of {
                rustc_hir::def::CtorOf::Variant => {
                    let adt = tcx.parent(vdid);
                    Some(J::obj(vec![("adt", s(self.dp(adt))), ("variant", s(tcx.item_name(vdid).to_string())), ("is_enum", J::Bool(true))]))
                }
                rustc_hir::def::CtorOf::Struct => {
                    Some(J::obj(vec![("adt", s(self.dp(vdid))), ("variant", s(tcx.item_name(vdid).to_string())), ("is_enum", J::Bool(false))]))
                }
            }
        } else {
            None
        }
    }

    fn path_args(&self, did: DefId, args: ty::GenericArgsRef<'tcx>) -> String {
        let p = with_no_trimmed_paths!(with_crate_prefix!(self.tcx.def_path_str_with_args(did, args)));
        self.fix(p)
    }

    fn ty_str(&self, t: Ty<'tcx>) -> String {
        let p = with_no_trimmed_paths!(with_crate_prefix!(t.to_string()));
        self.fix(p)
    }

    fn loc(&self, sp: Span) -> (String, u32, bool) {
        let exp = sp.from_expansion();
        let sp2 = if exp { sp.source_callsite() } else { sp };
        let sm = self.tcx.sess.source_map();
        let l = sm.lookup_char_pos(sp2.lo());
        let f = match &l.file.name {
            rustc_span::FileName::Real(r) => match r.local_path() {
                Some(p) => p.to_string_lossy().to_string(),
                None => format!("{:?}", l.file.name),
            },
            o => format!("{:?}", o),
        };
        (f, l.line as u32, exp)
    }

    fn note_ty(&mut self, t: Ty<'tcx>) {
        let t = t.peel_refs();
        match t.kind() {
            ty::Adt(def, args) => {
                self.note_adt(def.did());
                for a in args.iter() {
                    if let Some(t2) = a.as_type() {
                        self.note_ty(t2);
                    }
                }
            }
            ty::Tuple(ts) => {
                for t2 in ts.iter() {
                    self.note_ty(t2);
                }
            }
            ty::Slice(t2) | ty::Array(t2, _) => self.note_ty(*t2),
            _ => {}
        }
    }

    fn note_adt(&mut self, did: DefId) {
        let p = self.dp(did);
        if self.adts.contains_key(&p) {
            return;
        }
        self.adts.insert(p, J::Null);
        self.pending_adts.push(did);
    }

    /// the helper / tool attributes (`#[serde(..)]` ...) on a local item, field or variant: they steer the derive-generated
    /// codec bodies, which are not exported
    fn tool_attrs(&self, did: DefId, local: bool) -> J {
        let mut out = Vec::new();
        if local {
            let sp = self.tcx.def_ident_span(did).unwrap_or_else(|| self.tcx.def_span(did));
            let d = sp.data();
            if let Some(v) = self.attrs.get(&(d.lo.0, d.hi.0)) {
                for a in v {
                    out.push(s(a.clone()));
                }
            }
        }
        J::Arr(out)
    }

    fn flush_adts(&mut self) {
        while let Some(did) = self.pending_adts.pop() {
            let tcx = self.tcx;
            let def = tcx.adt_def(did);
            let p = self.dp(did);
            let pretty = self.path(did);
            let kind = if def.is_enum() {
                "enum"
            } else if def.is_union() {
                "union"
            } else {
                "struct"
            };
            let mut vars = Vec::new();
            let local = did.is_local();
            for (vi, v) in def.variants().iter_enumerated() {
                let mut fields = Vec::new();
                for f in v.fields.iter() {
                    let fty = tcx.type_of(f.did).instantiate_identity().skip_norm_wip();
                    if local {
                        self.note_ty(fty);
                    }
                    fields.push(J::obj(vec![
                        ("name", s(f.name.to_string())),
                        ("ty", s(self.ty_str(fty))),
                        ("attrs", self.tool_attrs(f.did, local)),
                        ("line", if local { J::Num(self.loc(tcx.def_span(f.did)).1 as i128) } else { J::Null }),
                    ]));
                }
                let discr = if def.is_enum() {
                    let d = def.discriminant_for_variant(tcx, vi);
                    J::Str(d.val.to_string())
                } else {
                    J::Null
                };
                vars.push(J::obj(vec![
                    ("name", s(v.name.to_string())),
                    ("attrs", if def.is_enum() { self.tool_attrs(v.def_id, local) } else { J::Arr(Vec::new()) }),
                    ("discr", discr),
                    ("fields", J::Arr(fields)),
                ]));
            }
            self.adts.insert(
                p,
                J::obj(vec![
                    ("kind", s(kind)),
                    ("local", J::Bool(local)),
                    ("pretty", s(pretty)),
                    ("attrs", self.tool_attrs(did, local)),
                    ("file", if local { s(self.loc(tcx.def_span(did)).0) } else { J::Null }),
                    ("line", if local { J::Num(self.loc(tcx.def_span(did)).1 as i128) } else { J::Null }),
                    ("variants", J::Arr(vars)),
                ]),
            );
        }
    }

    fn export(&mut self) -> J {
        let tcx = self.tcx;
        let mut bodies = Vec::new();
        let mut skipped = Vec::new();
        let mut keys: Vec<LocalDefId> = tcx.mir_keys(()).iter().copied().collect();
        keys.sort_by_key(|k| tcx.def_path_str(k.to_def_id()));
        for ldid in keys {
            let did = ldid.to_def_id();
            let kind = tcx.def_kind(did);
            let kstr = match kind {
                DefKind::Fn | DefKind::AssocFn => "fn",
                DefKind::Closure => "closure",
                DefKind::Const { .. } | DefKind::AssocConst { .. } => "const",
                DefKind::Static { .. } => "static",
                DefKind::Ctor(..) => continue,
                _ => {
                    skipped.push(J::obj(vec![("path", s(self.path(did))), ("why", s(format!("{:?}", kind)))]));
                    continue;
                }
            };
            let dspan = tcx.def_span(did);
            let (file, line, exp) = self.loc(dspan);
            // only what a derive or an attribute macro wrote is skipped; a function a `macro_rules!` of the workspace expands to is
            // workspace code like any other
            let generated = dspan.from_expansion()
                && matches!(
                    dspan.ctxt().outer_expn_data().kind,
                    rustc_span::ExpnKind::Macro(rustc_span::MacroKind::Derive | rustc_span::MacroKind::Attr, _)
                );
            if generated && kstr != "closure" {
                // derive / attribute-macro generated bodies (serde, schemars, thiserror, PartialEq…)
                skipped.push(J::obj(vec![("path", s(self.path(did))), ("dp", s(self.dp(did))), ("why", s("from_expansion"))]));
                continue;
            }
            if kstr == "closure" {
                // closures inside skipped (derive) bodies are skipped too
                let mut p = tcx.parent(did);
                let mut skip = false;
                loop {
                    match tcx.def_kind(p) {
                        DefKind::Closure => p = tcx.parent(p),
                        _ => {
                            let ps = tcx.def_span(p);
                            if ps.from_expansion()
                                && matches!(
                                    ps.ctxt().outer_expn_data().kind,
                                    rustc_span::ExpnKind::Macro(rustc_span::MacroKind::Derive | rustc_span::MacroKind::Attr, _)
                                )
                            {
                                skip = true;
                            }
                            break;
                        }
                    }
                }
                if skip {
                    continue;
                }
            }
            let is_const_ctx = matches!(kstr, "const" | "static")
                || (matches!(kind, DefKind::Fn | DefKind::AssocFn) && false);
            let body: &Body<'tcx> = if is_const_ctx { tcx.mir_for_ctfe(ldid) } else { tcx.optimized_mir(ldid) };
            let parent = if kstr == "closure" { s(self.dp(tcx.parent(did))) } else { J::Null };
            let mut bj = self.body(body);
            let vis = if matches!(kind, DefKind::Fn | DefKind::AssocFn) {
                J::Bool(tcx.visibility(did).is_public())
            } else {
                J::Null
            };
            let mut hdr = vec![
                ("path".to_string(), s(self.path(did))),
                ("dp".to_string(), s(self.dp(did))),
                ("kind".to_string(), s(kstr)),
                ("parent".to_string(), parent),
                ("file".to_string(), s(file)),
                ("line".to_string(), J::Num(line as i128)),
                ("exp".to_string(), J::Bool(exp)),
                ("pub".to_string(), vis),
            ];
            if matches!(kind, DefKind::Fn | DefKind::AssocFn) {
                // names of the type parameters, in the order in which call sites list their type arguments (`substs`)
                let gens: Vec<J> = ty::GenericArgs::identity_for_item(tcx, did)
                    .iter()
                    .filter_map(|a| a.as_type())
                    .map(|t| s(self.ty_str(t)))
                    .collect();
                hdr.push(("generics".to_string(), J::Arr(gens)));
            }
            if let J::Obj(ref mut v) = bj {
                hdr.append(v);
            }
            bodies.push(J::Obj(hdr));
            // promoted bodies
            if !is_const_ctx {
                let proms = tcx.promoted_mir(ldid);
                for (pi, pb) in proms.iter_enumerated() {
                    let mut pj = self.body(pb);
                    let mut hdr = vec![
                        ("path".to_string(), s(format!("{}::promoted[{}]", self.path(did), pi.index()))),
                        ("dp".to_string(), s(format!("{}::promoted[{}]", self.dp(did), pi.index()))),
                        ("kind".to_string(), s("promoted")),
                        ("parent".to_string(), s(self.dp(did))),
                        ("file".to_string(), s(self.loc(dspan).0)),
                        ("line".to_string(), J::Num(line as i128)),
                        ("exp".to_string(), J::Bool(false)),
                        ("pub".to_string(), J::Null),
                    ];
                    if let J::Obj(ref mut v) = pj {
                        hdr.append(v);
                    }
                    bodies.push(J::Obj(hdr));
                }
            }
        }
        // all local ADTs
        for id in tcx.hir_crate_items(()).definitions() {
            let did = id.to_def_id();
            if matches!(tcx.def_kind(did), DefKind::Struct | DefKind::Enum) {
                self.note_adt(did);
            }
        }
        self.flush_adts();
        let adts = J::Obj(self.adts.iter().map(|(k, v)| (k.clone(), v.clone())).collect());
        J::obj(vec![
            ("crate", s(self.cname.clone())),
            ("bodies", J::Arr(bodies)),
            ("adts", adts),
            ("skipped", J::Arr(skipped)),
        ])
    }

    fn body(&mut self, body: &Body<'tcx>) -> J {
        let tcx = self.tcx;
        let mut locals = Vec::new();
        let mut names: BTreeMap<usize, String> = BTreeMap::new();
        for vdi in body.var_debug_info.iter() {
            if let mir::VarDebugInfoContents::Place(p) = &vdi.value {
                if p.projection.is_empty() {
                    names.entry(p.local.index()).or_insert(vdi.name.to_string());
                }
            }
        }
        for (l, d) in body.local_decls.iter_enumerated() {
            self.note_ty(d.ty);
            let mut o = vec![("ty", s(self.ty_str(d.ty)))];
            let peeled = d.ty.peel_refs();
            match peeled.kind() {
                ty::Adt(def, _) => o.push(("adt", s(self.dp(def.did())))),
                ty::Closure(cd, _) => o.push(("closure", s(self.dp(*cd)))),
                _ => {}
            }
            if let Some(n) = names.get(&l.index()) {
                o.push(("name", s(n.clone())));
            }
            locals.push(J::obj(o));
        }
        let mut blocks = Vec::new();
        for (_bb, bd) in body.basic_blocks.iter_enumerated() {
            blocks.push(self.block(body, bd));
        }
        let _ = tcx;
        J::obj(vec![
            ("argc", J::Num(body.arg_count as i128)),
            ("locals", J::Arr(locals)),
            ("blocks", J::Arr(blocks)),
        ])
    }

    fn place(&mut self, body: &Body<'tcx>, p: &Place<'tcx>) -> J {
        let tcx = self.tcx;
        let mut proj = Vec::new();
        for (i, el) in p.projection.iter().enumerate() {
            let pj = match el {
                ProjectionElem::Deref => s("*"),
                ProjectionElem::Field(f, fty) => {
                    let base = Place::ty_from(p.local, &p.projection[..i], &body.local_decls, tcx);
                    let mut name = format!("{}", f.index());
                    match base.ty.kind() {
                        ty::Adt(def, _) => {
                            let vi = base.variant_index.unwrap_or(rustc_abi::FIRST_VARIANT);
                            if let Some(v) = def.variants().get(vi) {
                                if let Some(fd) = v.fields.get(f) {
                                    name = fd.name.to_string();
                                }
                            }
                        }
                        _ => {}
                    }
                    let _ = fty;
                    J::obj(vec![("f", J::Num(f.index() as i128)), ("n", s(name))])
                }
                ProjectionElem::Downcast(_, vi) => {
                    let base = Place::ty_from(p.local, &p.projection[..i], &body.local_decls, tcx);
                    let mut name = format!("{}", vi.index());
                    if let ty::Adt(def, _) = base.ty.kind() {
                        if let Some(v) = def.variants().get(vi) {
                            name = v.name.to_string();
                        }
                    }
                    J::obj(vec![("d", s(name))])
                }
                ProjectionElem::Index(l) => J::obj(vec![("i", J::Num(l.index() as i128))]),
                ProjectionElem::ConstantIndex { offset, from_end, .. } => {
                    J::obj(vec![("ci", J::Num(offset as i128)), ("from_end", J::Bool(from_end))])
                }
                ProjectionElem::Subslice { from, to, from_end } => J::obj(vec![
                    ("sub", J::Arr(vec![J::Num(from as i128), J::Num(to as i128)])),
                    ("from_end", J::Bool(from_end)),
                ]),
                ProjectionElem::OpaqueCast(_) => s("opaque"),
                ProjectionElem::UnwrapUnsafeBinder(_) => s("unbind"),
            };
            proj.push(pj);
        }
        J::obj(vec![("l", J::Num(p.local.index() as i128)), ("p", J::Arr(proj))])
    }

    fn konst(&mut self, c: &mir::ConstOperand<'tcx>) -> J {
        let tcx = self.tcx;
        let ty = c.const_.ty();
        let tys = self.ty_str(ty);
        // function items and other zero-sized values
        if let ty::FnDef(fid, args) = ty.kind() {
            let cj = self.ctor_info(*fid).unwrap_or(J::Null);
            return J::obj(vec![
                ("ctor", cj),
                ("k", s("fn")),
                ("dp", s(self.dp(*fid))),
                ("path", s(self.path(*fid))),
                ("inst", s(self.path_args(*fid, args))),
            ]);
        }
        match c.const_ {
            mir::Const::Unevaluated(u, _) => {
                if let Some(p) = u.promoted {
                    return J::obj(vec![
                        ("k", s("promoted")),
                        ("dp", s(format!("{}::promoted[{}]", self.dp(u.def), p.index()))),
                        ("ty", s(tys)),
                    ]);
                }
                // the type arguments too: an associated const named through a type parameter (`Self::MAX`) is the const of
                // whatever impl that parameter is bound to
                let csub: Vec<J> = u.args.iter().filter_map(|a| a.as_type()).map(|t| s(self.ty_str(t))).collect();
                return J::obj(vec![
                    ("k", s("const")),
                    ("dp", s(self.dp(u.def))),
                    ("path", s(self.path(u.def))),
                    ("ty", s(tys)),
                    ("substs", J::Arr(csub)),
                ]);
            }
            mir::Const::Val(cv, _) => match cv {
                ConstValue::Scalar(mir::interpret::Scalar::Int(si)) => {
                    let bits = si.to_bits(si.size());
                    let v: String = match ty.kind() {
                        ty::Bool => (if bits != 0 { "true" } else { "false" }).to_string(),
                        ty::Int(_) => {
                            let sz = si.size().bits();
                            let sv: i128 = if sz == 128 {
                                bits as i128
                            } else {
                                let sh = 128 - sz;
                                ((bits << sh) as i128) >> sh
                            };
                            sv.to_string()
                        }
                        ty::Char => format!("char:{}", bits),
                        _ => bits.to_string(),
                    };
                    return J::obj(vec![("k", s("int")), ("v", s(v)), ("ty", s(tys))]);
                }
                ConstValue::ZeroSized => {
                    let mut o = vec![("k", s("zst")), ("ty", s(tys))];
                    if let ty::Closure(cd, _) = ty.kind() {
                        o.push(("closure", s(self.dp(*cd))));
                    }
                    if let ty::Adt(def, _) = ty.kind() {
                        o.push(("adt", s(self.dp(def.did()))));
                    }
                    return J::obj(o);
                }
                ConstValue::Slice { alloc_id, meta } => {
                    if let ty::Ref(_, inner, _) = ty.kind() {
                        if inner.is_str() {
                            let alloc = tcx.global_alloc(alloc_id).unwrap_memory();
                            let bytes = alloc
                                .inner()
                                .inspect_with_uninit_and_ptr_outside_interpreter(0..(meta as usize));
                            return J::obj(vec![
                                ("k", s("str")),
                                ("v", s(String::from_utf8_lossy(bytes).to_string())),
                            ]);
                        }
                    }
                    return J::obj(vec![("k", s("other")), ("d", s(format!("{}", c.const_))), ("ty", s(tys))]);
                }
                _ => {
                    return J::obj(vec![("k", s("other")), ("d", s(format!("{}", c.const_))), ("ty", s(tys))]);
                }
            },
            mir::Const::Ty(..) => {
                return J::obj(vec![("k", s("other")), ("d", s(format!("{}", c.const_))), ("ty", s(tys))]);
            }
        }
    }

    fn operand(&mut self, body: &Body<'tcx>, o: &Operand<'tcx>) -> J {
        match o {
            Operand::Copy(p) => J::obj(vec![("c", self.place(body, p))]),
            Operand::Move(p) => J::obj(vec![("m", self.place(body, p))]),
            Operand::Constant(c) => self.konst(c),
            Operand::RuntimeChecks(_) => J::obj(vec![("k", s("int")), ("v", s("false")), ("ty", s("bool"))]),
        }
    }

    fn rvalue(&mut self, body: &Body<'tcx>, rv: &Rvalue<'tcx>) -> J {
        let tcx = self.tcx;
        match rv {
            Rvalue::Use(o, _) => J::obj(vec![("r", s("use")), ("o", self.operand(body, o))]),
            Rvalue::Repeat(o, n) => {
                J::obj(vec![("r", s("repeat")), ("o", self.operand(body, o)), ("n", s(format!("{}", n)))])
            }
            Rvalue::Ref(_, bk, p) => {
                let m = matches!(bk, BorrowKind::Mut { .. });
                J::obj(vec![("r", s("ref")), ("mut", J::Bool(m)), ("p", self.place(body, p))])
            }
            Rvalue::ThreadLocalRef(_) => J::obj(vec![("r", s("tls"))]),
            Rvalue::RawPtr(_, p) => J::obj(vec![("r", s("rawptr")), ("p", self.place(body, p))]),
            Rvalue::Cast(k, o, t) => {
                let ks = match k {
                    CastKind::IntToInt => "IntToInt".to_string(),
                    CastKind::PointerCoercion(pc, _) => format!("Ptr:{:?}", pc),
                    other => format!("{:?}", other),
                };
                let from = o.ty(&body.local_decls, tcx);
                J::obj(vec![
                    ("r", s("cast")),
                    ("kind", s(ks)),
                    ("o", self.operand(body, o)),
                    ("from", s(self.ty_str(from))),
                    ("to", s(self.ty_str(*t))),
                ])
            }
            Rvalue::BinaryOp(op, ab) => J::obj(vec![
                ("r", s("bin")),
                ("op", s(format!("{:?}", op))),
                ("a", self.operand(body, &ab.0)),
                ("b", self.operand(body, &ab.1)),
                ("ty", s(self.ty_str(ab.0.ty(&body.local_decls, tcx)))),
            ]),
            Rvalue::UnaryOp(op, o) => {
                J::obj(vec![("r", s("un")), ("op", s(format!("{:?}", op))), ("o", self.operand(body, o))])
            }
            Rvalue::Discriminant(p) => {
                let pty = p.ty(&body.local_decls, tcx).ty;
                let mut o = vec![("r", s("discr")), ("p", self.place(body, p))];
                if let ty::Adt(def, _) = pty.kind() {
                    self.note_adt(def.did());
                    o.push(("adt", s(self.dp(def.did()))));
                }
                J::obj(o)
            }
            Rvalue::Aggregate(k, ops) => {
                let opsj: Vec<J> = ops.iter().map(|o| self.operand(body, o)).collect();
                match &**k {
                    AggregateKind::Array(_) => J::obj(vec![("r", s("agg")), ("ak", s("array")), ("ops", J::Arr(opsj))]),
                    AggregateKind::Tuple => J::obj(vec![("r", s("agg")), ("ak", s("tuple")), ("ops", J::Arr(opsj))]),
                    AggregateKind::Adt(did, vi, _, _, active) => {
                        self.note_adt(*did);
                        let def = tcx.adt_def(*did);
                        let v = &def.variants()[*vi];
                        let mut fnames: Vec<J> = v.fields.iter().map(|f| s(f.name.to_string())).collect();
                        if let Some(a) = active {
                            fnames = vec![s(v.fields[*a].name.to_string())];
                        }
                        J::obj(vec![
                            ("r", s("agg")),
                            ("ak", s("adt")),
                            ("adt", s(self.dp(*did))),
                            ("variant", s(v.name.to_string())),
                            ("is_enum", J::Bool(def.is_enum())),
                            ("fields", J::Arr(fnames)),
                            ("ops", J::Arr(opsj)),
                        ])
                    }
                    AggregateKind::Closure(cd, _) => J::obj(vec![
                        ("r", s("agg")),
                        ("ak", s("closure")),
                        ("closure", s(self.dp(*cd))),
                        ("ops", J::Arr(opsj)),
                    ]),
                    AggregateKind::RawPtr(..) => J::obj(vec![("r", s("agg")), ("ak", s("rawptr")), ("ops", J::Arr(opsj))]),
                    _ => J::obj(vec![("r", s("agg")), ("ak", s("other")), ("ops", J::Arr(opsj))]),
                }
            }
            Rvalue::CopyForDeref(p) => J::obj(vec![("r", s("use")), ("o", J::obj(vec![("c", self.place(body, p))]))]),
            Rvalue::WrapUnsafeBinder(o, _) => J::obj(vec![("r", s("use")), ("o", self.operand(body, o))]),
        }
    }

    fn block(&mut self, body: &Body<'tcx>, bd: &BasicBlockData<'tcx>) -> J {
        let tcx = self.tcx;
        let mut stmts = Vec::new();
        for st in bd.statements.iter() {
            let (_, line, exp) = self.loc(st.source_info.span);
            match &st.kind {
                StatementKind::Assign(bx) => {
                    let (p, rv) = &**bx;
                    stmts.push(J::obj(vec![
                        ("s", s("assign")),
                        ("p", self.place(body, p)),
                        ("rv", self.rvalue(body, rv)),
                        ("line", J::Num(line as i128)),
                        ("exp", J::Bool(exp)),
                    ]));
                }
                StatementKind::SetDiscriminant { place, variant_index } => {
                    let pty = place.ty(&body.local_decls, tcx).ty;
                    let mut vname = format!("{}", variant_index.index());
                    if let ty::Adt(def, _) = pty.kind() {
                        vname = def.variants()[*variant_index].name.to_string();
                    }
                    stmts.push(J::obj(vec![
                        ("s", s("setdiscr")),
                        ("p", self.place(body, place)),
                        ("variant", s(vname)),
                        ("line", J::Num(line as i128)),
                    ]));
                }
                StatementKind::Intrinsic(_) => {
                    stmts.push(J::obj(vec![("s", s("intrinsic")), ("line", J::Num(line as i128))]));
                }
                _ => {}
            }
        }
        let term = bd.terminator();
        let (_, line, exp) = self.loc(term.source_info.span);
        let tj = match &term.kind {
            TerminatorKind::Goto { target } => J::obj(vec![("t", s("goto")), ("target", J::Num(target.index() as i128))]),
            TerminatorKind::SwitchInt { discr, targets } => {
                let dty = discr.ty(&body.local_decls, tcx);
                let mut arms = Vec::new();
                for (v, t) in targets.iter() {
                    arms.push(J::Arr(vec![J::Str(v.to_string()), J::Num(t.index() as i128)]));
                }
                J::obj(vec![
                    ("t", s("switch")),
                    ("o", self.operand(body, discr)),
                    ("ty", s(self.ty_str(dty))),
                    ("arms", J::Arr(arms)),
                    ("otherwise", J::Num(targets.otherwise().index() as i128)),
                ])
            }
            TerminatorKind::Return => J::obj(vec![("t", s("return"))]),
            TerminatorKind::Unreachable => J::obj(vec![("t", s("unreachable"))]),
            TerminatorKind::UnwindResume | TerminatorKind::UnwindTerminate(_) => J::obj(vec![("t", s("unwind"))]),
            TerminatorKind::Drop { place, target, .. } => J::obj(vec![
                ("t", s("drop")),
                ("p", self.place(body, place)),
                ("target", J::Num(target.index() as i128)),
            ]),
            TerminatorKind::Call { func, args, destination, target, fn_span, .. } => {
                let fty = func.ty(&body.local_decls, tcx);
                let mut o = vec![("t", s("call"))];
                match fty.kind() {
                    ty::FnDef(fid, substs) => {
                        o.push(("callee", s(self.path(*fid))));
                        o.push(("callee_dp", s(self.dp(*fid))));
                        if let Some(cj) = self.ctor_info(*fid) {
                            o.push(("ctor", cj));
                        }
                        o.push(("callee_inst", s(self.path_args(*fid, substs))));
                        let sub: Vec<J> = substs
                            .iter()
                            .filter_map(|a| a.as_type())
                            .map(|t| {
                                let mut e = vec![("ty", s(self.ty_str(t)))];
                                if let ty::Closure(cd, _) = t.kind() {
                                    e.push(("closure", s(self.dp(*cd))));
                                }
                                J::obj(e)
                            })
                            .collect();
                        o.push(("substs", J::Arr(sub)));
                        let owner = body.source.def_id();
                        let env = ty::TypingEnv::post_analysis(tcx, owner);
                        match ty::Instance::try_resolve(tcx, env, *fid, substs) {
                            Ok(Some(inst)) => {
                                let rk = match inst.def {
                                    ty::InstanceKind::Item(_) => "item",
                                    ty::InstanceKind::Virtual(..) => "virtual",
                                    ty::InstanceKind::ClosureOnceShim { .. } => "closure_once",
                                    ty::InstanceKind::FnPtrShim(..) => "fnptr",
                                    ty::InstanceKind::Intrinsic(_) => "intrinsic",
                                    _ => "shim",
                                };
                                o.push(("res_kind", s(rk)));
                                o.push(("resolved", s(self.path(inst.def_id()))));
                                o.push(("resolved_dp", s(self.dp(inst.def_id()))));
                                o.push(("resolved_inst", s(self.path_args(inst.def_id(), inst.args))));
                                // type arguments of the function that actually runs (an impl method lists its impl's
                                // parameters first, unlike the trait method the call site names)
                                let rsub: Vec<J> = inst
                                    .args
                                    .iter()
                                    .filter_map(|a| a.as_type())
                                    .map(|t| J::obj(vec![("ty", s(self.ty_str(t)))]))
                                    .collect();
                                o.push(("resolved_substs", J::Arr(rsub)));
                            }
                            _ => {
                                o.push(("res_kind", s("unresolved")));
                            }
                        }
                    }
                    _ => {
                        o.push(("callee_op", self.operand(body, func)));
                        o.push(("res_kind", s("indirect")));
                    }
                }
                let argsj: Vec<J> = args.iter().map(|a| self.operand(body, &a.node)).collect();
                o.push(("args", J::Arr(argsj)));
                o.push(("dest", self.place(body, destination)));
                o.push(("target", match target {
                    Some(t) => J::Num(t.index() as i128),
                    None => J::Null,
                }));
                let (_, fl, _) = self.loc(*fn_span);
                o.push(("fn_line", J::Num(fl as i128)));
                J::obj(o)
            }
            TerminatorKind::Assert { cond, expected, target, msg, .. } => J::obj(vec![
                ("t", s("assert")),
                ("o", self.operand(body, cond)),
                ("expected", J::Bool(*expected)),
                ("msg", s(format!("{:?}", msg).chars().take(60).collect::<String>())),
                ("target", J::Num(target.index() as i128)),
            ]),
            TerminatorKind::FalseEdge { real_target, .. } => {
                J::obj(vec![("t", s("goto")), ("target", J::Num(real_target.index() as i128))])
            }
            TerminatorKind::FalseUnwind { real_target, .. } => {
                J::obj(vec![("t", s("goto")), ("target", J::Num(real_target.index() as i128))])
            }
            other => J::obj(vec![("t", s("other")), ("d", s(format!("{:?}", other).chars().take(80).collect::<String>()))]),
        };
        let mut tjv = match tj {
            J::Obj(v) => v,
            _ => unreachable!(),
        };
        tjv.push(("line".to_string(), J::Num(line as i128)));
        tjv.push(("exp".to_string(), J::Bool(exp)));
        J::obj(vec![("cleanup", J::Bool(bd.is_cleanup)), ("stmts", J::Arr(stmts)), ("term", J::Obj(tjv))])
    }
}

fn main() {
    let args: Vec<String> = std::env::args().collect();
    // As RUSTC_WORKSPACE_WRAPPER we are called as: <wrapper> <rustc> <args…>
    let mut rargs: Vec<String> = vec!["rustc".to_string()];
    let skip = if args.len() > 1 && (args[1].ends_with("rustc") || args[1].contains("/rustc")) { 2 } else { 1 };
    rargs.extend(args.iter().skip(skip).cloned());
    let mut cb = Cb::default();
    rustc_driver::run_compiler(&rargs, &mut cb);
}
