// Minimal JSON writer (the driver has zero cargo dependencies).
#[derive(Clone)]
pub enum J {
    Null,
    Bool(bool),
    Num(i128),
    Str(String),
    Arr(Vec<J>),
    Obj(Vec<(String, J)>),
}

impl J {
    pub fn obj(v: Vec<(&str, J)>) -> J {
        J::Obj(v.into_iter().map(|(k, v)| (k.to_string(), v)).collect())
    }

    pub fn to_string(&self) -> String {
        let mut s = String::new();
        self.write(&mut s);
        s
    }

    fn esc(x: &str, out: &mut String) {
        out.push('"');
        for c in x.chars() {
            match c {
                '"' => out.push_str("\\\""),
                '\\' => out.push_str("\\\\"),
                '\n' => out.push_str("\\n"),
                '\r' => out.push_str("\\r"),
                '\t' => out.push_str("\\t"),
                c if (c as u32) < 0x20 => out.push_str(&format!("\\u{:04x}", c as u32)),
                c => out.push(c),
            }
        }
        out.push('"');
    }

    fn write(&self, out: &mut String) {
        match self {
            J::Null => out.push_str("null"),
            J::Bool(b) => out.push_str(if *b { "true" } else { "false" }),
            J::Num(n) => out.push_str(&n.to_string()),
            J::Str(x) => J::esc(x, out),
            J::Arr(v) => {
                out.push('[');
                for (i, e) in v.iter().enumerate() {
                    if i > 0 {
                        out.push(',');
                    }
                    e.write(out);
                }
                out.push(']');
            }
            J::Obj(v) => {
                out.push('{');
                for (i, (k, e)) in v.iter().enumerate() {
                    if i > 0 {
                        out.push(',');
                    }
                    J::esc(k, out);
                    out.push(':');
                    e.write(out);
                }
                out.push('}');
            }
        }
    }
}
