"""Path-sensitive effect summariser over exported MIR.

Terms are nested tuples (see DESIGN.md 3.1).  `Engine.summarise(fn)` enumerates the acyclic paths of
a function (workspace callees inlined, loops traversed once) and returns for each path the branch
decisions, the storage/primitive effects, and the returned term.  Nothing is executed: values are
reconstructed symbolically from the MIR, external calls stay opaque `call` terms unless they are
in the primitive table (prims.py).
"""
import sys

from .facts import strip_generics

RESULT = "core::result::Result"
OPTION = "core::option::Option"
CFLOW = "core::ops::control_flow::ControlFlow"

UNIT = ("unit",)
TRUE = ("lit", True)
FALSE = ("lit", False)


class PathCap(Exception):
    pass


class Effect(object):
    __slots__ = ("kind", "item", "key", "op", "value", "old", "extra", "site", "loops", "stack", "name", "args", "ver", "rd", "ignores_old")

    def __init__(self, kind, **kw):
        self.kind = kind
        self.item = kw.get("item")
        self.key = kw.get("key")
        self.op = kw.get("op")
        self.value = kw.get("value")
        self.old = kw.get("old")
        self.extra = kw.get("extra")
        self.site = kw.get("site")
        self.loops = kw.get("loops", ())
        self.stack = kw.get("stack", ())
        self.name = kw.get("name")
        self.args = kw.get("args")
        self.ver = None
        self.rd = None
        self.ignores_old = False

    def __repr__(self):
        if self.kind in ("read", "write"):
            return "<%s %s.%s key=%s %s@%s>" % (self.kind, short(self.item), self.op, show(self.key),
                                                 ("val=" + show(self.value)) if self.value is not None else "", self.site[1] if self.site else "?")
        if self.kind == "prim":
            return "<prim %s %s @%s>" % (self.name, show(self.args), self.site[1] if self.site else "?")
        return "<%s %s>" % (self.kind, self.name)


def short(x):
    if isinstance(x, tuple) and x and x[0] == "const":
        return x[1].split("::")[-1]
    return str(x)


def show(t, depth=0):
    """compact rendering of a term for diagnostics"""
    if depth > 12:
        return "…"
    if not isinstance(t, tuple):
        return repr(t)
    if not t:
        return "()"
    k = t[0]
    d = depth + 1
    if k == "param":
        return t[1]
    if k == "field":
        return "%s.%s" % (show(t[1], d), t[2])
    if k == "vfield":
        return "%s?%s.%s" % (show(t[1], d), t[2], t[3])
    if k == "variant":
        fs = ", ".join("%s: %s" % (n, show(v, d)) for n, v in t[3])
        return "%s::%s{%s}" % (t[1].split("::")[-1], t[2], fs)
    if k == "struct":
        fs = ", ".join("%s: %s" % (n, show(v, d)) for n, v in t[2])
        return "%s{%s}" % (t[1].split("::")[-1], fs)
    if k in ("tuple", "list"):
        return ("(%s)" if k == "tuple" else "[%s]") % ", ".join(show(x, d) for x in t[1])
    if k == "lit":
        return str(t[1])
    if k == "str":
        return repr(t[1])
    if k == "const":
        return t[1].split("::")[-1]
    if k in ("call", "calli"):
        return "%s(%s)" % (t[1].split("::")[-1] if not t[1].startswith("<") else t[1], ", ".join(show(x, d) for x in t[2]))
    if k == "update":
        return "%s{%s}" % (show(t[1], d), ", ".join("%s:=%s" % (n, show(v, d)) for n, v in t[2]))
    if k == "closure":
        return "closure(%s)" % t[1].split("::", 1)[-1]
    if k == "bin":
        return "(%s %s %s)" % (show(t[2], d), t[1], show(t[3], d))
    if k == "cmp":
        return "(%s %s %s)" % (show(t[2], d), t[1], show(t[3], d))
    if k == "not":
        return "!%s" % show(t[1], d)
    if k == "ref":
        return "&%s%s" % (t[1], list(t[2]))
    if k == "unwrap_or":
        return "%s.unwrap_or(%s)" % (show(t[1], d), show(t[2], d))
    if k in ("load", "may_load", "oldval"):
        return "%s(%s[%s]#%s)" % (k, short(t[1]), show(t[2], d), t[3])
    if k == "loopvar":
        return "loopvar(%s,%s)" % (t[2], t[3])
    if k == "resp":
        return "%s[%s]%s" % (t[1], ", ".join("%s:%s" % (h, show(m, d)) for h, m in t[2]),
                             (" data=" + show(t[3], d)) if t[3] is not None else "")
    if k == "discr":
        return "discr(%s)" % show(t[1], d)
    return "%s(%s)" % (k, ", ".join(show(x, d) if isinstance(x, tuple) else str(x) for x in t[1:]))


class State(object):
    __slots__ = ("mem", "conds", "effects", "refine", "wver", "ctr", "loopcnt", "loopinfo", "loopstack",
                 "stack", "notes", "types", "arglists")

    def __init__(self):
        self.mem = {}
        self.conds = []
        self.effects = []
        self.refine = {}
        self.wver = {}
        self.ctr = [0]          # shared mutable counter is fine: uniqueness only
        self.loopcnt = {}
        self.loopinfo = {}
        self.loopstack = ()
        self.stack = ()
        self.notes = []
        self.types = {}         # term -> ADT it was matched as (lets trait calls on its payloads be resolved)
        self.arglists = frozenset()     # list literals that reached a function as an argument (its loops stay parametric)

    def copy(self):
        s = State.__new__(State)
        s.mem = dict(self.mem)
        s.conds = list(self.conds)
        s.effects = list(self.effects)
        s.refine = dict(self.refine)
        s.wver = dict(self.wver)
        s.ctr = self.ctr
        s.loopcnt = dict(self.loopcnt)
        s.loopinfo = dict(self.loopinfo)
        s.loopstack = self.loopstack
        s.stack = self.stack
        s.notes = list(self.notes)
        s.types = dict(self.types)
        s.arglists = self.arglists
        return s

    def fresh(self):
        self.ctr[0] += 1
        return self.ctr[0]


class Path(object):
    __slots__ = ("conds", "effects", "ret", "notes", "entry")

    def __init__(self, st, ret, entry=None):
        self.conds = st.conds
        self.effects = st.effects
        self.ret = ret
        self.notes = st.notes
        self.entry = entry

    def is_ok(self):
        r = self.ret
        return isinstance(r, tuple) and r[0] == "variant" and r[1] == RESULT and r[2] == "Ok"

    def is_err(self):
        r = self.ret
        return isinstance(r, tuple) and r[0] == "variant" and r[1] == RESULT and r[2] == "Err"

    def ok_value(self):
        return self.ret[3][0][1]

    def writes(self, item=None):
        return [e for e in self.effects if e.kind == "write" and (item is None or e.item == item)]

    def prims(self, name=None):
        return [e for e in self.effects if e.kind == "prim" and (name is None or e.name == name)]


def variant(adt, v, fields=()):
    return ("variant", adt, v, tuple((str(i), f) for i, f in enumerate(fields)))


def OK(x):
    return variant(RESULT, "Ok", (x,))


def ERR(x):
    return variant(RESULT, "Err", (x,))


def SOME(x):
    return variant(OPTION, "Some", (x,))


NONE = ("variant", OPTION, "None", ())


_INT_BITS = {"u8": 8, "u16": 16, "u32": 32, "u64": 64, "u128": 128, "usize": 64,
             "i8": 8, "i16": 16, "i32": 32, "i64": 64, "i128": 128, "isize": 64}


class Engine(object):
    def __init__(self, facts, opaque=(), max_paths=60000, max_depth=14, max_steps=6000000):
        self.facts = facts
        self.by_dp = {}
        for b in facts.bodies.values():
            pass
        # index bodies by def-path id
        for c, d in facts.crates.items():
            for b in d["bodies"]:
                self.by_dp[b["dp"]] = facts.bodies[b["path"]]
        # one canonical pretty name per callee def-path (re-exports give several spellings)
        names = {}
        for b in facts.bodies.values():
            for blk in b.blocks:
                t = blk["term"]
                if t["t"] == "call" and "callee" in t:
                    if t.get("res_kind") in ("item", "closure_once", "shim", "fnptr") and t.get("resolved"):
                        names.setdefault(t["resolved_dp"], set()).add(strip_generics(t["resolved"]))
                    names.setdefault(t["callee_dp"], set()).add(strip_generics(t["callee"]))
        self.canon = {}
        for dp, ns in names.items():
            if dp in self.by_dp:
                self.canon[dp] = self.by_dp[dp].path
                continue
            crate = dp.split("::")[0]
            pref = [n for n in ns if n.startswith(crate + "::") or n.startswith("<" + crate + "::")]
            cands = pref or list(ns)
            self.canon[dp] = sorted(cands, key=lambda n: (len(n), n))[0]
        self.opaque = set(opaque)      # pretty paths of workspace functions that must stay atomic
        self.max_paths = max_paths
        self.max_depth = max_depth
        self.max_steps = max_steps
        self.const_cache = {}
        self.const_info = {}
        from . import prims
        self.prims = prims
        prims.CURRENT_ENGINE = self
        self.unmodelled = {}           # external callee name -> count (diagnostics)
        self.stat_paths = 0
        self.stat_steps = 0
        self.stat_bodies = set()
        self._paths = 0
        self._steps = 0
        self._fx = {}
        self._tyenv = {}               # frame id -> {type parameter: type argument} of inlined generic functions
        self._closure_env = {}         # closure def path -> the bindings of the generic function that created it
        self._item_adt = {}
        self.blind = set()             # (unmodelled callee, effectful closure) pairs: analysis blind spots, fail closed

    # ------------------------------------------------------------------ public
    def summarise(self, path_or_body, args=None, opaque=None):
        """Enumerate the paths of a function.  Returns a list of Path."""
        body = path_or_body if hasattr(path_or_body, "blocks") else self.facts.bodies[path_or_body]
        old_opaque = self.opaque
        if opaque is not None:
            self.opaque = set(opaque)
        try:
            st = State()
            if args is None:
                args = []
                for i in range(1, body.argc + 1):
                    nm = body.locals[i].get("name") or ("arg%d" % i)
                    args.append(("param", nm))
            self._paths = 0
            self._steps = 0
            self._tyenv = {}
            res = self.run_body(st, body, list(args), 0, ("entry", 0))
            settled = [self.settle(s, r) for (s, r) in res]
            out = [Path(s, r, entry=body.path) for (s, r) in settled if not self.contradictory_emptiness(s)]
            self.stat_paths += len(out)
            return out
        finally:
            self.opaque = old_opaque

    # ------------------------------------------------------------------ late refinement
    def settle(self, st, ret):
        """rewrite the terms of a finished path with what the path decided later: `x.unwrap_or(d)` taken before a branch on
        `x` is `x`'s payload (or `d`) on the paths that went on to decide `x` - the same value `match x {..}` would have
        produced there.  Terms are pure values, so a decision made anywhere on the path holds for the whole path."""
        opts = {t: v for t, v in st.refine.items() if v in ("Some", "None") and isinstance(t, tuple)}
        # a struct local handed to a loop body by `&mut` is split into one loop variable per field; the fields the loop did
        # not change on this path (zero iterations, or stepped to themselves) are loop-invariant: their entry value
        inv = {}
        steps = {e.name: e for e in st.effects if e.kind == "loop_step"}
        for e in st.effects:
            if e.kind != "loop_enter":
                continue
            stp = steps.get(e.name)
            for nm, v0 in e.value.items():
                if "." not in nm:
                    continue
                lv0 = ("loopvar", e.name, nm, 0)
                if stp is None:
                    inv[lv0] = v0
                elif stp.value.get(nm) == lv0:
                    inv[lv0] = v0
                    inv[("loopvar", e.name, nm, 1)] = v0
        # index loops are element loops: `let mut i = 0; while i < c.len() { .. c[i] ..; i += 1 }` and
        # `for i in 0..c.len() { .. c[i] .. }` visit the elements of c in order, like `for x in &c`.  They are rewritten to
        # that form (synthetic `next` decisions on an `iter#` loop variable whose entry value is c), so that every rule
        # that reads loops reads these too.
        idx_elem = {}          # (collection term, index term) -> element term
        cond_rw = {}           # guard term -> (next term)
        ent_add = {}           # loop key -> {"iter#": collection} / {ivar: collection}
        steps_ = {e.name: e for e in st.effects if e.kind == "loop_step"}
        for e in st.effects:
            if e.kind != "loop_enter":
                continue
            lk = e.name
            stp = steps_.get(lk)
            # form A: a counter that starts at 0, is compared with c.len() and stepped by one
            for nm, v0 in e.value.items():
                if v0 != ("lit", 0):
                    continue
                lv = [("loopvar", lk, nm, k) for k in (0, 1)]
                if stp is not None and stp.value.get(nm) not in (("bin", "add", lv[0], ("lit", 1)), ("bin", "add_wrapping", lv[0], ("lit", 1))):
                    continue
                coll = None
                for c in st.conds:
                    t = c[0]
                    if t[0] == "cmp" and t[1] == "lt" and t[2] in lv and t[3][0] == "call" and t[3][1] == "len" and isinstance(c[1], bool):
                        coll = t[3][2][0]
                if coll is None:
                    continue
                for k in (0, 1):
                    nxt = ("calli", "next", (("loopvar", lk, "iter#", k),), -(k + 1))
                    idx_elem[(coll, lv[k])] = ("vfield", nxt, "Some", "0")
                    cond_rw[("cmp", "lt", lv[k], ("call", "len", (coll,)))] = nxt
                ent_add.setdefault(lk, {})["iter#"] = coll
            # form B: for i in 0..c.len()
            for nm, v0 in e.value.items():
                if v0[0] == "struct" and v0[1].endswith("ops::range::Range"):
                    f = dict(v0[2])
                    if f.get("start") == ("lit", 0) and f.get("end") is not None and f["end"][0] == "call" and f["end"][1] == "len":
                        coll = f["end"][2][0]
                        used = False
                        for k in (0, 1):
                            for c in st.conds:
                                t = c[0]
                                if t[0] == "calli" and t[1] == "next" and t[2][0] == ("loopvar", lk, nm, k) and c[1] == "Some":
                                    idx_elem[(coll, ("vfield", t, "Some", "0"))] = ("vfield", t, "Some", "0")
                                    used = True
                        if used:
                            ent_add.setdefault(lk, {})[nm] = coll
        if not opts and not inv and not idx_elem:
            return st, ret
        memo = {}

        def rw(t):
            if not isinstance(t, tuple) or not t:
                return t
            k = memo.get(t)
            if k is not None:
                return k
            if t[0] == "unwrap_or" and len(t) == 3 and t[1] in opts:
                r = ("vfield", rw(t[1]), "Some", "0") if opts[t[1]] == "Some" else rw(t[2])
            elif t[0] == "loopvar" and t in inv:
                r = rw(inv[t])
            elif idx_elem and t[0] == "index" and (t[1], t[2]) in idx_elem:
                r = idx_elem[(t[1], t[2])]
            elif idx_elem and t[0] == "call" and t[1].endswith("Index>::index") and len(t[2]) == 2 and (t[2][0], t[2][1]) in idx_elem:
                r = idx_elem[(t[2][0], t[2][1])]
            else:
                r = tuple(rw(x) if isinstance(x, tuple) else x for x in t)
                if r == t:
                    r = t
            memo[t] = r
            return r
        probe = False
        for t in opts:
            probe = True
            break
        newconds = []
        for c in st.conds:
            if c[0] in cond_rw and isinstance(c[1], bool):
                newconds.append((cond_rw[c[0]], "Some" if c[1] else "None", c[2], c[3]))
            else:
                newconds.append((rw(c[0]), c[1], c[2], c[3]))
        st.conds = newconds
        import copy as _copy
        neweff = []
        for e in st.effects:       # Effect objects are shared with sibling paths: never mutate, copy on change
            if e.kind in ("read", "write"):
                e2k = rw(e.key)
                e2v = rw(e.value) if e.value is not None else None
                e2o = rw(e.old) if e.old is not None else None
                e2x = rw(e.extra) if isinstance(e.extra, tuple) else e.extra
                if (e2k, e2v, e2o, e2x) != (e.key, e.value, e.old, e.extra):
                    e = _copy.copy(e)
                    e.key, e.value, e.old, e.extra = e2k, e2v, e2o, e2x
            elif e.kind == "prim":
                a2 = rw(e.args) if isinstance(e.args, tuple) else e.args
                if a2 != e.args:
                    e = _copy.copy(e)
                    e.args = a2
            elif e.kind in ("loop_enter", "loop_step"):
                v2 = {k: rw(v) for k, v in e.value.items()}
                if e.kind == "loop_enter" and e.name in ent_add:
                    v2.update(ent_add[e.name])
                if v2 != e.value:
                    e = _copy.copy(e)
                    e.value = v2
            neweff.append(e)
        st.effects = neweff
        return st, rw(ret)

    # ------------------------------------------------------------------ effect scan (blind-spot detection)
    _FX = ("::save", "::update", "::remove", "Admin::set", "execute_update_admin", "execute_add_hook", "execute_remove_hook",
           "Hooks::add_hook", "Hooks::remove_hook", "create_claim", "claim_tokens")

    def body_has_effects(self, dp, depth=0):
        """does the body (transitively, through workspace callees and nested closures) write storage?"""
        if dp in self._fx:
            return self._fx[dp]
        b = self.by_dp.get(dp)
        if b is None or depth > 12:
            return False
        self._fx[dp] = False
        res = False
        for blk in b.blocks:
            if blk["cleanup"]:
                continue
            for st_ in blk["stmts"]:
                if st_["s"] == "assign" and st_["rv"]["r"] == "agg" and st_["rv"].get("ak") == "closure":
                    if self.body_has_effects(st_["rv"]["closure"], depth + 1):
                        res = True
            t = blk["term"]
            if t["t"] == "call" and "callee" in t:
                nm = t.get("resolved") or t["callee"]
                if (nm.startswith(("cw_storage_plus::", "cw_controllers::")) and any(x in nm for x in self._FX)):
                    res = True
                cdp = t.get("resolved_dp") or t.get("callee_dp")
                if cdp in self.by_dp and self.body_has_effects(cdp, depth + 1):
                    res = True
        self._fx[dp] = res
        return res

    def note_blind(self, name, vals_):
        for v in vals_:
            for x in _walk_terms(v):
                if x[0] == "closure" and self.body_has_effects(x[1]):
                    b = self.by_dp.get(x[1])
                    self.blind.add((name, b.path if b else x[1]))

    # ------------------------------------------------------------------ memory model
    def project(self, st, t, e):
        """apply one projection element to a value term"""
        if e == "*":
            if isinstance(t, tuple) and t[0] == "ref":
                return self.read_loc(st, t[1], t[2])
            return t
        if isinstance(e, str):
            return t
        if "f" in e:
            return self.proj_field(st, t, e["n"], e["f"])
        if "d" in e:
            return ("as", t, e["d"])
        if "i" in e:
            return ("index", t, self.val(st, st.mem.get((self._cur_fid, e["i"]), ("unknown", "idx"))))
        if "ci" in e:
            if t[0] == "list" and not e.get("from_end") and e["ci"] < len(t[1]):
                return t[1][e["ci"]]
            if t[0] == "call" and t[1] == "repeat" and len(t[2]) == 2:
                return t[2][0]          # [v; n][i] is v
            return ("index", t, ("lit", e["ci"]))
        return ("unknown", "proj", str(e))

    def proj_field(self, st, t, name, idx):
        k = t[0] if isinstance(t, tuple) and t else None
        if k == "as":
            base, v = t[1], t[2]
            if base[0] == "variant":
                if base[2] == v:
                    fs = base[3]
                    if idx < len(fs):
                        return fs[idx][1]
                    return ("unknown", "variant-field-oob")
                return ("unknown", "variant-mismatch", base[2], v)
            if base[0] == "ref":
                return self.proj_field(st, ("as", self.read_loc(st, base[1], base[2]), v), name, idx)
            return ("vfield", base, v, name)
        if k == "struct":
            for n, v in t[2]:
                if n == name:
                    return v
            return ("field", t, name)
        if k == "tuple":
            if idx < len(t[1]):
                return t[1][idx]
            return ("field", t, name)
        if k == "closure":
            if idx < len(t[2]):
                return t[2][idx]
            return ("unknown", "upvar-oob")
        if k == "update":
            for n, v in t[2]:
                if n == name:
                    return v
            return self.proj_field(st, t[1], name, idx)
        if k == "ref":
            # smart-pointer internals (Box<T>.0.pointer …): stay on the referent
            return t
        if k == "variant":
            # struct-like access on a single-variant value
            fs = t[3]
            for n, v in fs:
                if n == name:
                    return v
        if k == "resp" and name == "messages" and not any(h == "base" for h, _ in t[2]):
            # the messages of a response whose construction is known (`inner.messages` forwarded by a wrapper): single entries
            # as a list; a response that took a whole collection keeps that collection
            if all(h in ("msg", "submsg") for h, _ in t[2]):
                return ("list", tuple(m for _, m in t[2]))
            if len(t[2]) == 1:
                return t[2][0][1]
        return ("field", t, name)

    def read_loc(self, st, loc, path):
        t = st.mem.get(loc, ("uninit", loc[1]))
        for e in path:
            t = self.project(st, t, e)
        return t

    def read_place(self, st, fid, pl):
        self._cur_fid = fid
        t = st.mem.get((fid, pl["l"]), ("uninit", pl["l"]))
        for e in pl["p"]:
            t = self.project(st, t, e)
        return t

    def resolve(self, st, fid, pl):
        """place -> (loc, path) following stored references; opaque derefs stay on the same cell"""
        self._cur_fid = fid
        loc = (fid, pl["l"])
        path = []
        for e in pl["p"]:
            if e == "*":
                cur = self.read_loc(st, loc, tuple(path))
                if isinstance(cur, tuple) and cur and cur[0] == "ref":
                    loc, path = cur[1], list(cur[2])
                continue
            if isinstance(e, str):
                continue
            path.append(HD(e))
        return loc, tuple(path)

    def write_place(self, st, fid, pl, v):
        loc, path = self.resolve(st, fid, pl)
        self.write_loc(st, loc, path, v)

    def write_loc(self, st, loc, path, v):
        if not path:
            st.mem[loc] = v
        else:
            st.mem[loc] = self.set_in(st, st.mem.get(loc, ("uninit", loc[1])), path, v)

    def set_in(self, st, t, path, v):
        if not path:
            return v
        e = path[0]
        if "f" in e:
            cur = self.proj_field(st, t, e["n"], e["f"])
            new = self.set_in(st, cur, path[1:], v)
            return self.with_field(t, e["n"], e["f"], new)
        if "d" in e and len(path) >= 2 and "f" in path[1]:
            if t[0] == "variant" and t[2] == e["d"]:
                f = path[1]
                fs = list(t[3])
                if f["f"] < len(fs):
                    cur = fs[f["f"]][1]
                    fs[f["f"]] = (fs[f["f"]][0], self.set_in(st, cur, path[2:], v))
                    return ("variant", t[1], t[2], tuple(fs))
            return ("unknown", "write-through-downcast", st.fresh())
        return ("unknown", "write-through-index", st.fresh())

    def with_field(self, t, name, idx, new):
        k = t[0]
        if k == "struct":
            return ("struct", t[1], tuple((n, (new if n == name else v)) for n, v in t[2]))
        if k == "tuple":
            return ("tuple", tuple(new if i == idx else x for i, x in enumerate(t[1])))
        if k == "closure":
            return ("closure", t[1], tuple(new if i == idx else x for i, x in enumerate(t[2])))
        if k == "update":
            d = dict(t[2])
            d[name] = new
            return ("update", t[1], tuple(sorted(d.items())))
        if k == "variant":
            return ("variant", t[1], t[2], tuple((n, (new if n == name else v)) for n, v in t[3]))
        return ("update", t, ((name, new),))

    def val(self, st, t, depth=0):
        """value of a term with every stored reference replaced by the referent's current value"""
        if not isinstance(t, tuple) or not t:
            return t
        if depth > 40:
            return ("unknown", "deep-ref")
        k = t[0]
        if k == "ref":
            return self.val(st, self.read_loc(st, t[1], t[2]), depth + 1)
        if k in ("lit", "str", "param", "const", "unit", "loopvar", "unknown", "uninit", "fnitem"):
            return t
        if k in ("load", "may_load", "oldval"):
            return t
        changed = False
        out = []
        for x in t:
            if isinstance(x, tuple):
                y = self._val_inner(st, x, depth + 1)
                if y is not x:
                    changed = True
                out.append(y)
            else:
                out.append(x)
        return tuple(out) if changed else t

    def _val_inner(self, st, x, depth):
        # x is either a term or a tuple of terms / (name, term) pairs
        if x and isinstance(x[0], str):
            return self.val(st, x, depth)
        changed = False
        out = []
        for y in x:
            if isinstance(y, tuple):
                z = self._val_inner(st, y, depth)
                if z is not y:
                    changed = True
                out.append(z)
            else:
                out.append(y)
        return tuple(out) if changed else x

    # ------------------------------------------------------------------ evaluation
    def site(self, body, line):
        return (body.file, line, body.path)

    def eval_operand(self, st, body, fid, o):
        if "c" in o:
            return self.read_place(st, fid, o["c"])
        if "m" in o:
            return self.read_place(st, fid, o["m"])
        k = o["k"]
        if k == "int":
            v = o["v"]
            if v == "true":
                return TRUE
            if v == "false":
                return FALSE
            if v.startswith("char:"):
                return ("lit", chr(int(v[5:])))
            return ("lit", int(v))
        if k == "str":
            return ("str", o["v"])
        if k == "fn":
            # a trait method passed as a value (`.then(Response::default)`): name it by its instantiation
            return ("fnitem", o["dp"], strip_generics(o.get("inst") or o["path"]), HD(o.get("ctor")))
        if k == "const":
            if o["dp"] not in self.by_dp and o.get("substs"):
                # an associated const of a trait, named through a type: the const of that type's impl
                env = self._tyenv.get(fid) or {}
                sty = env.get(o["substs"][0], o["substs"][0])
                nm = o["dp"].rsplit("::", 1)
                if len(nm) == 2:
                    want = "<%s as %s>::%s" % (strip_generics(sty), nm[0], nm[1])
                    if not hasattr(self, "_dp_of_path"):
                        self._dp_of_path = {b.path: dp for dp, b in self.by_dp.items()}
                    for pth, b in self.facts.bodies.items():
                        if b.kind == "const" and pth.endswith("::" + nm[1]) and strip_generics(pth) == want and pth in self._dp_of_path:
                            return self.eval_const(self._dp_of_path[pth], pth)
            return self.eval_const(o["dp"], o.get("path"))
        if k == "promoted":
            return self.eval_const(o["dp"], None)
        if k == "zst":
            if "closure" in o:
                return ("closure", o["closure"], ())
            if o["ty"] == "()":
                return UNIT
            if "adt" in o:
                a = self.facts.adt(o["adt"])
                if a and a["kind"] == "struct":
                    return ("struct", o["adt"], ())
                return ("zst", o["adt"])
            return ("zst", o["ty"])
        return ("unknown", "const", o.get("d", ""))

    def eval_const(self, dp, pretty):
        if dp in self.const_cache:
            return self.const_cache[dp]
        b = self.by_dp.get(dp)
        res = ("const", dp)
        if b is not None:
            self.const_cache[dp] = res  # recursion guard
            try:
                st = State()
                saved = (self._paths if hasattr(self, "_paths") else 0)
                outs = self.run_body(st, b, [], 0, ("const", 0))
                if len(outs) == 1:
                    v = self.val(outs[0][0], outs[0][1])
                    self.const_info[dp] = v
                    if v[0] in ("lit", "str", "list") or (v[0] in ("call",) and not v[1].startswith(("cw_storage_plus", "cw_controllers"))
                                                        and not contains_kind(v, ("unknown", "uninit"))):
                        res = v
                    elif v[0] in ("variant", "struct", "tuple") and not contains_kind(v, ("unknown", "uninit", "call")):
                        res = v
            except PathCap:
                pass
        self.const_cache[dp] = res
        return res

    def namespace_of(self, item):
        """storage namespace literal(s) of a storage const, read from its initialiser"""
        if not (isinstance(item, tuple) and item[0] == "const"):
            return None
        self.eval_const(item[1], None)
        v = self.const_info.get(item[1])
        if v and v[0] == "call":
            return tuple(a[1] if a[0] == "str" else show(a) for a in v[2]), v[1]
        return None

    def eval_rvalue(self, st, body, fid, rv, line):
        k = rv["r"]
        if k == "use":
            return self.eval_operand(st, body, fid, rv["o"])
        if k == "ref":
            loc, path = self.resolve(st, fid, rv["p"])
            return ("ref", loc, path)
        if k == "rawptr":
            loc, path = self.resolve(st, fid, rv["p"])
            return ("ref", loc, path)
        if k == "cast":
            v = self.eval_operand(st, body, fid, rv["o"])
            if rv["kind"] == "IntToInt":
                fb, tb = _INT_BITS.get(rv["from"]), _INT_BITS.get(rv["to"])
                if fb and tb and (tb < fb or (tb == fb and rv["from"][0] != rv["to"][0])):
                    vv = self.val(st, v)
                    if vv[0] == "lit" and isinstance(vv[1], int) and not isinstance(vv[1], bool):
                        lo, hi = (-(2 ** (tb - 1)), 2 ** (tb - 1) - 1) if rv["to"][0] == "i" else (0, 2 ** tb - 1)
                        if lo <= vv[1] <= hi:
                            return vv          # lossless on this constant
                    return ("cast", rv["from"], rv["to"], vv)
                return v
            return v
        if k == "bin":
            a = self.val(st, self.eval_operand(st, body, fid, rv["a"]))
            b = self.val(st, self.eval_operand(st, body, fid, rv["b"]))
            return self.binop(rv["op"], a, b, rv.get("ty"))
        if k == "un":
            a = self.val(st, self.eval_operand(st, body, fid, rv["o"]))
            op = rv["op"]
            if op == "Not":
                return negate(a)
            if op == "Neg":
                return ("neg", a)
            if op == "PtrMetadata":
                return ("call", "len", (a,))
            return ("un", op, a)
        if k == "discr":
            t = self.read_place(st, fid, rv["p"])
            if t[0] == "ref":
                t = self.read_loc(st, t[1], t[2])
            return self.discr_of(st, t, rv.get("adt"))
        if k == "agg":
            ops = [self.eval_operand(st, body, fid, o) for o in rv["ops"]]
            ak = rv["ak"]
            if ak == "tuple":
                return ("tuple", tuple(ops)) if ops else UNIT
            if ak == "array":
                return ("list", tuple(ops))
            if ak == "adt":
                fs = tuple(zip(rv["fields"], ops))
                if rv["is_enum"]:
                    return rewrap(rv["adt"], rv["variant"], fs)
                return self.canon_struct(rv["adt"], fs)
            if ak == "closure":
                if self._tyenv.get(fid):
                    self._closure_env[rv["closure"]] = self._tyenv[fid]      # a closure sees its definer's type parameters
                return ("closure", rv["closure"], tuple(ops))
            return ("unknown", "aggregate", ak)
        if k == "repeat":
            return ("call", "repeat", (self.val(st, self.eval_operand(st, body, fid, rv["o"])), ("str", rv["n"])))
        return ("unknown", "rvalue", k)

    def pretty_type_of(self, st, t, n=0):
        """pretty type name of the value a term denotes, when the term says it (literal structs / variants) or the path
        matched an enclosing enum (payload of a decided variant) - else None"""
        while isinstance(t, tuple) and t and t[0] == "ref" and n < 8:
            t = self.read_loc(st, t[1], t[2])
            n += 1
        if not isinstance(t, tuple) or not t:
            return None
        if t[0] in ("struct", "variant"):
            a = self.facts.adt(t[1])
            return (a or {}).get("pretty", t[1])
        if t[0] == "zst":
            a = self.facts.adt(t[1])
            return (a or {}).get("pretty", t[1])
        if t[0] == "vfield":
            adt = st.types.get(t[1])
            a = self.facts.adt(adt) if adt else None
            if a:
                for v in a["variants"]:
                    if v["name"] == t[2]:
                        for f in v["fields"]:
                            if f["name"] == t[3]:
                                return strip_generics(f["ty"].lstrip("&").replace("mut ", "").strip())
        ta = self.term_adt(t)
        if ta:
            a = self.facts.adt(ta)
            return (a or {}).get("pretty", ta)
        return None

    def workspace_from(self, st, arg, call, name=None):
        """`x.into()` / `U::from(x)` where the workspace implements From<typeof x> for U: the impl's body (else None)"""
        if not hasattr(self, "_froms"):
            import re as _re
            self._froms = {}
            for p, b in self.facts.bodies.items():
                m = _re.match(r"^<(.+) as std::convert::From<(.+)>>::from$", p)
                if m and b.kind == "fn":
                    self._froms.setdefault(m.group(2), []).append((strip_generics(m.group(1)), b))
                m = _re.search(r"<impl std::convert::From<(.+)> for (.+)>::from$", p)
                if m and b.kind == "fn":
                    self._froms.setdefault(m.group(1), []).append((strip_generics(m.group(2)), b))
        if not self._froms:
            return None
        # the source type, with its type arguments: `From<Vec<Coin>>` is not `From<Vec<MemberDiff>>`
        ty = None
        dst = None
        if call is not None and call.get("substs"):
            env = self._tyenv.get(getattr(self, "_cur_cfid", None)) or {}
            subs = [env.get(x.get("ty", ""), x.get("ty", "")) for x in call["substs"]]
            is_into = call.get("callee", "").endswith("Into::into")
            src = subs[0] if is_into else subs[-1]     # <S as Into<T>> / <T as From<S>>
            if len(subs) == 2:
                dst = strip_generics(subs[1] if is_into else subs[0])
            ty = src if src in self._froms else None
        if ty is None and call is None and name:
            # called as a function value (`.map(Weight::from)`): the path names the target; its only impl is the one meant
            import re as _re
            m = _re.match(r"^<(.+) as std::convert::From>::from$", name)
            if m:
                hits = [b for cs in self._froms.values() for u, b in cs if u == strip_generics(m.group(1))]
                if len(hits) == 1:
                    return hits[0]
        if ty is None:
            ty = self.pretty_type_of(st, arg)       # ADT names carry no arguments: usable only for non-generic sources
            if ty is not None and "<" in ty:
                ty = None
        if ty is None or ty not in self._froms:
            return None
        cands = self._froms[ty]
        if dst is not None:
            # the conversion's target is named by the call: only an impl for exactly that type is the one that runs
            # (`Uint64::from(u64)` is not the workspace's `Weight: From<u64>`)
            cands = [c for c in cands if c[0] == dst]
            if not cands:
                return None
        if len(cands) == 1:
            return cands[0][1]
        body = self.facts.bodies.get(st.stack[-1]) if st.stack else None
        if body is not None and call is not None and not call["dest"]["p"]:
            want = strip_generics(body.locals[call["dest"]["l"]]["ty"])
            hit = [b for u, b in cands if u == want]
            if len(hit) == 1:
                return hit[0]
        return None

    def workspace_try_from(self, call):
        """`x.try_into()` / `U::try_from(x)` where the workspace implements TryFrom<typeof x> for U: the impl's body (else None)"""
        if not hasattr(self, "_tryfroms"):
            import re as _re
            self._tryfroms = {}
            for p, b in self.facts.bodies.items():
                m = _re.match(r"^<(.+) as std::convert::TryFrom<(.+)>>::try_from$", p) or None
                if m and b.kind == "fn":
                    self._tryfroms[(strip_generics(m.group(1)), m.group(2))] = b
                m = _re.search(r"<impl std::convert::TryFrom<(.+)> for (.+)>::try_from$", p)
                if m and b.kind == "fn":
                    self._tryfroms[(strip_generics(m.group(2)), m.group(1))] = b
        if not self._tryfroms or call is None or len(call.get("substs") or ()) != 2:
            return None
        env = self._tyenv.get(getattr(self, "_cur_cfid", None)) or {}
        subs = [env.get(x.get("ty", ""), x.get("ty", "")) for x in call["substs"]]
        src, dst = (subs[0], subs[1]) if call.get("callee", "").endswith("TryInto::try_into") else (subs[1], subs[0])
        return self._tryfroms.get((strip_generics(dst), src))

    def resolve_trait_call(self, st, trait_method_dp, recv, ty=None):
        if not hasattr(self, "_impls"):
            import re as _re
            self._impls = {}
            for p, b in self.facts.bodies.items():
                m = _re.match(r"^<(.+) as (.+)>::(\w+)$", p)
                if m and b.kind == "fn":
                    self._impls.setdefault((strip_generics(m.group(2)), m.group(3)), []).append((strip_generics(m.group(1)), b))
        tp = trait_method_dp.rsplit("::", 1)
        if len(tp) != 2:
            return None
        if tp[0].startswith(("core::", "alloc::")):
            tp[0] = "std::" + tp[0].split("::", 1)[1]       # def paths say core::, printed paths std::
        cands = self._impls.get((tp[0], tp[1]), [])
        if not cands:
            return None
        ty = ty or self.pretty_type_of(st, recv)
        if ty is None:
            return None
        hit = [b for sty, b in cands if sty == ty or sty.split("::")[-1] == ty.split("::")[-1] and sty.split("::")[0] == ty.split("::")[0]]
        return hit[0] if len(hit) == 1 else None

    def item_value_adt(self, item):
        """def-path id of T for a storage const Item<T> / Map<K, T> / SnapshotMap<K, T> (None when T is not an ADT)"""
        if item in self._item_adt:
            return self._item_adt[item]
        res = None
        b = self.by_dp.get(item[1]) if isinstance(item, tuple) and len(item) > 1 and item[0] == "const" else None
        if b is not None:
            from .facts import _split_top, _match_angle
            ty = b.locals[0]["ty"]
            i = ty.find("<")
            if i > 0 and ty.startswith("cw_storage_plus::"):
                inner = ty[i + 1:_match_angle(ty, i)]
                last = _split_top(inner, ", ")[-1].strip()
                if not hasattr(self, "_pretty2adt"):
                    self._pretty2adt = {}
                    for k, v in self.facts.adts.items():
                        self._pretty2adt.setdefault(v.get("pretty", k), k)
                        self._pretty2adt.setdefault(k, k)
                nm = last.split("<")[0]
                res = self._pretty2adt.get(nm)
                if res is None and "::" in nm:
                    # the type is printed by a re-exported path (cw3::Proposal for cw3::proposal::Proposal)
                    cands = [k for k in self.facts.adts if k.split("::")[0] == nm.split("::")[0] and k.split("::")[-1] == nm.split("::")[-1]]
                    if len(cands) == 1:
                        res = cands[0]
        self._item_adt[item] = res
        return res

    def term_adt(self, t):
        """ADT of the value a storage read produced (None when unknown)"""
        if isinstance(t, tuple) and t and t[0] == "unwrap_or" and t[1][0] == "vfield" and t[1][2] == "Ok" and t[1][1][0] == "may_load":
            return self.item_value_adt(t[1][1][1])      # stored entry or its default
        if not isinstance(t, tuple) or not t or t[0] != "vfield":
            return None
        if t[2] == "Ok" and t[1][0] == "load":
            return self.item_value_adt(t[1][1])
        if t[2] == "Some" and t[1][0] == "vfield" and t[1][2] == "Ok" and t[1][1][0] == "may_load":
            return self.item_value_adt(t[1][1][1])
        return None

    def collection_type(self, entry_path, t):
        """declared type of a message field / stored struct field a term reads (`msg?Execute.msgs` -> "Vec<CosmosMsg<T>>"), else None"""
        def field_ty(adt, variant, f):
            a = self.facts.adt(adt) if adt else None
            if not a:
                return None
            for v in a["variants"]:
                if variant is None or v["name"] == variant:
                    for fd in v["fields"]:
                        if fd["name"] == f:
                            return fd["ty"]
            return None
        if not isinstance(t, tuple) or not t:
            return None
        if t[0] == "vfield" and t[1][0] == "param":
            b = self.facts.bodies.get(entry_path)
            if b is not None:
                for i in range(1, b.argc + 1):
                    if b.locals[i].get("name") == t[1][1]:
                        return field_ty(b.locals[i].get("adt"), t[2], t[3])
            return None
        if t[0] == "field":
            return field_ty(self.term_adt(t[1]), None, t[2])
        return None

    def canon_struct(self, adt, fs):
        """`S { f: new, ..base }` (or the same thing spelled field by field / after destructuring) and `base.f = new`
        summarise to the same term: a literal of type S some of whose fields are `base.<same name>` for one stored value
        `base` of type S, the others not, becomes update(base, changed fields)."""
        base = None
        copied, changed = 0, []
        for n, v in fs:
            if isinstance(v, tuple) and v and v[0] == "field" and v[2] == n:
                b = v[1]
                if b[0] == "update":
                    b = b[1]
                if base is None and (self.term_adt(b) == adt or b[0] == "call"):
                    # a stored value of this very type, or `S { f: new, ..make_s() }` over a function result
                    base = v[1]
                if base is not None and v[1] == base:
                    copied += 1
                    continue
            changed.append((n, v))
        if base is None or not copied or not changed:
            return ("struct", adt, fs)
        if base[0] == "update":
            d = dict(base[2])
            d.update(changed)
            return ("update", base[1], tuple(sorted(d.items())))
        return ("update", base, tuple(sorted(changed)))

    def binop(self, op, a, b, ty=None):
        if op in ("AddWithOverflow", "SubWithOverflow", "MulWithOverflow"):
            o = {"AddWithOverflow": "add", "SubWithOverflow": "sub", "MulWithOverflow": "mul"}[op]
            return ("tuple", (fold_bin(o, a, b, True), ("ovf", o, a, b)))
        if op in ("Add", "Sub", "Mul", "AddUnchecked", "SubUnchecked", "MulUnchecked"):
            o = op.replace("Unchecked", "").lower()
            # plain Add/Sub/Mul appear only when overflow checks are off or in const contexts: wrapping
            return fold_bin(o, a, b, False)
        if op in ("Div", "Rem", "BitAnd", "BitOr", "BitXor", "Shl", "Shr"):
            if op in ("BitAnd", "BitOr") and ty == "bool":
                return ("bin", op.lower(), a, b)
            return fold_bin(op.lower(), a, b, True)
        if op == "Eq":
            return mkcmp("eq", a, b)
        if op == "Ne":
            return negate(mkcmp("eq", a, b))
        if op == "Lt":
            return mkcmp("lt", a, b)
        if op == "Le":
            return mkcmp("le", a, b)
        if op == "Gt":
            return mkcmp("lt", b, a)
        if op == "Ge":
            return mkcmp("le", b, a)
        return ("bin", op.lower(), a, b)

    def discr_of(self, st, t, adt):
        if t[0] == "variant":
            a = self.facts.adt(t[1])
            if a:
                for v in a["variants"]:
                    if v["name"] == t[2]:
                        return ("lit", int(v["discr"]))
            return ("discr", t, t[1])
        r = st.refine.get(t)
        if r is not None and adt:
            a = self.facts.adt(adt)
            if a:
                for v in a["variants"]:
                    if v["name"] == r:
                        return ("lit", int(v["discr"]))
        return ("discr", t, adt)

    # ------------------------------------------------------------------ forking helpers
    def force_enum(self, st, t, adt, site=None, only=None):
        """-> list of (state, variant_name, [payload terms]).  Forks when the variant is unknown."""
        if isinstance(t, tuple) and t and t[0] == "ref":
            t = self.read_loc(st, t[1], t[2])
        if t[0] == "variant":
            return [(st, t[2], [v for _, v in t[3]])]
        a = self.facts.adt(adt) if adt else None
        if a is not None and adt not in (OPTION, RESULT, CFLOW):
            st.types[t] = adt
        known = st.refine.get(t)
        feasible = st.refine.get(("only", t))
        if feasible is not None:
            only = set(feasible) if only is None else (set(only) & set(feasible))
        if a is None:
            # unknown ADT table: best effort for Option / Result
            names = {OPTION: [("None", []), ("Some", ["0"])], RESULT: [("Ok", ["0"]), ("Err", ["0"])]}.get(adt)
            if names is None:
                return [(st, None, [])]
            vs = names
        else:
            vs = [(v["name"], [f["name"] for f in v["fields"]]) for v in a["variants"]]
        out = []
        cands = [(n, c) for n, c in vs if (known is None or n == known) and (only is None or n in only)]
        for i, (n, c) in enumerate(cands):
            s2 = st if i == len(cands) - 1 else st.copy()
            if known is None:
                s2.refine[t] = n
                s2.conds.append((t, n, site, len(s2.effects)))
            out.append((s2, n, [("vfield", t, n, j) for j in c]))
        return out

    def force_bool(self, st, t, site=None):
        """-> list of (state, bool)"""
        t = self.val(st, t)
        pol = True
        while t[0] == "not":
            t = t[1]
            pol = not pol
        if t[0] == "lit":
            return [(st, bool(t[1]) == pol)]
        r = st.refine.get(t)
        if r is not None:
            return [(st, r == pol)]
        if t[0] == "cmp" and t[1] == "eq":
            # an earlier `match x { 7 => .. }` decided x: a later `x == 9` is not a fresh decision
            for a_, b_ in ((t[2], t[3]), (t[3], t[2])):
                k = st.refine.get(a_)
                if b_[0] == "lit" and isinstance(b_[1], int) and isinstance(k, tuple) and k:
                    if k[0] == "=":
                        return [(st, (k[1] == b_[1]) == pol)]
                    if k[0] == "notin" and b_[1] in k[1]:
                        return [(st, (False) == pol)]
        if t[0] == "cmp" and t[1] == "eq":
            # `x == Status::Passed` after `x == Status::Rejected` was decided true is not a fresh decision (and vice versa)
            for a_, b_ in ((t[2], t[3]), (t[3], t[2])):
                if b_[0] == "variant" and not b_[3] and a_[0] != "variant":
                    known = st.refine.get(("eqv", a_))
                    if known is not None:
                        return [(st, (known == (b_[1], b_[2])) == pol)]
                    if (b_[1], b_[2]) in st.refine.get(("nev", a_), ()):
                        return [(st, False == pol)]
                    s2 = st.copy()
                    st.refine[t] = True
                    st.refine[("eqv", a_)] = (b_[1], b_[2])
                    st.conds.append((t, True, site, len(st.effects)))
                    s2.refine[t] = False
                    s2.refine[("nev", a_)] = tuple(s2.refine.get(("nev", a_), ())) + ((b_[1], b_[2]),)
                    s2.conds.append((t, False, site, len(s2.effects)))
                    return [(st, pol), (s2, not pol)]
        if t[0] == "is":
            # x.is_some() / x.is_ok() used as a branch condition is the same decision as `match x`: record it on x
            base, pos = t[1], t[2]
            adt = OPTION if pos == "Some" else RESULT
            neg = "None" if pos == "Some" else "Err"
            out = []
            for s_i, n, _ in self.force_enum(st, base, adt, site):
                out.append((s_i, (n == pos) == pol))
            return out
        s2 = st.copy()
        st.refine[t] = True
        st.conds.append((t, True, site, len(st.effects)))
        s2.refine[t] = False
        s2.conds.append((t, False, site, len(s2.effects)))
        return [(st, pol), (s2, not pol)]

    # ------------------------------------------------------------------ interpreter
    def run_body(self, st, body, args, depth, callsite, tyenv=None):
        fid = st.fresh()
        if tyenv:
            self._tyenv[fid] = tyenv
        for i, a in enumerate(args):
            st.mem[(fid, i + 1)] = a
            if depth > 0 and body.kind == "fn":
                # a function that loops over a parameter is summarised for any list, also where a caller happens to pass a literal:
                # its loops keep the shape the rules know from its other callers (closures see their definer's literals as their own)
                v = self.val(st, a) if isinstance(a, tuple) and a and a[0] == "ref" else a
                if isinstance(v, tuple) and v and v[0] == "list" and v[1]:
                    st.arglists = st.arglists | {v}
        self.stat_bodies.add(body.path)
        old_stack = st.stack
        st.stack = old_stack + (body.path,)
        res = self.run_from(st, body, fid, 0, depth)
        for s, _ in res:
            s.stack = old_stack
        return res

    def run_from(self, st, body, fid, bb, depth):
        out = []
        loops = body.loops()
        blocks = body.blocks
        while True:
            self._steps += 1
            if self._steps > self.max_steps:
                raise PathCap("step cap exceeded in %s" % body.path)
            # leave the loops of this frame whose body does not contain bb (exit edge / zero-iteration exit)
            while st.loopstack and st.loopstack[-1][2] == fid and st.loopstack[-1][0] == body.path \
                    and bb not in loops[st.loopstack[-1][1]]["blocks"]:
                st.loopstack = st.loopstack[:-1]
            if bb in loops:
                if not self.loop_head(st, body, fid, bb, loops[bb]):
                    return out
            blk = blocks[bb]
            for s in blk["stmts"]:
                if s["s"] == "assign":
                    v = self.eval_rvalue(st, body, fid, s["rv"], s["line"])
                    self.write_place(st, fid, s["p"], v)
                elif s["s"] == "setdiscr":
                    self.write_place(st, fid, s["p"], ("unknown", "setdiscr", st.fresh()))
            t = blk["term"]
            k = t["t"]
            if k in ("goto", "drop", "assert"):
                bb = t["target"]
                continue
            if k == "return":
                while st.loopstack and st.loopstack[-1][2] == fid:
                    st.loopstack = st.loopstack[:-1]
                self._paths += 1
                if self._paths > self.max_paths:
                    raise PathCap("path cap exceeded in %s" % body.path)
                out.append((st, st.mem.get((fid, 0), UNIT)))
                return out
            if k == "switch":
                br = self.eval_switch(st, body, fid, t)
                if len(br) == 1:
                    st, bb = br[0]
                    continue
                for s_i, tgt in br:
                    out.extend(self.run_from(s_i, body, fid, tgt, depth))
                return out
            if k == "call":
                results = self.do_call(st, body, fid, t, depth)
                tgt = t["target"]
                if tgt is None:
                    return out
                if len(results) == 1:
                    st, v = results[0]
                    self.write_place(st, fid, t["dest"], v)
                    bb = tgt
                    continue
                for s_i, v in results:
                    self.write_place(s_i, fid, t["dest"], v)
                    out.extend(self.run_from(s_i, body, fid, tgt, depth))
                return out
            # unreachable / unwind / other
            return out

    def loop_leaves(self, st, loc, name, path=(), depth=0):
        """the places below `loc` that get their own loop variable: a struct-valued local is split field by field (two
        levels), so that `ledger.total` is an accumulator of its own; stored references keep their target"""
        cur = self.read_loc(st, loc, path) if path else st.mem.get(loc)
        if isinstance(cur, tuple) and cur and cur[0] == "ref":
            return []
        if isinstance(cur, tuple) and cur and cur[0] == "struct" and cur[2] and depth < 2:
            out = []
            for i, (n, v) in enumerate(cur[2]):
                out += self.loop_leaves(st, loc, "%s.%s" % (name, n), path + (HD({"f": i, "n": n}),), depth + 1)
            return out
        return [(loc, path, name)]

    def loop_head(self, st, body, fid, bb, info):
        key = (fid, bb)
        cnt = st.loopcnt.get(key, 0)
        # a loop driven by an iterator over a sequence with known elements is unrolled exactly (p_next answers
        # deterministically and ends it): no loop variables, no 0/1 approximation
        mkey = ("mode", fid, bb)
        mode = st.loopinfo.get(mkey)
        if mode is None:
            mode = "approx"
            for l in sorted(info["assigned"]):
                v = st.mem.get((fid, l))
                if isinstance(v, tuple) and v and ((v[0] == "list" and len(v[1]) <= 8) or v[0] == "default") \
                        and "Iter" in body.locals[l].get("ty", "") and v not in st.arglists:
                    mode = "unrolled"       # (the Default of a collection is the empty collection)
            st.loopinfo[mkey] = mode
        if mode == "unrolled":
            st.loopcnt[key] = cnt + 1
            return cnt <= 10
        if cnt >= 2:
            return False
        lk = (body.path, bb, fid)
        if cnt == 0:
            locs = []
            for l in sorted(info["assigned"]):
                if (fid, l) in st.mem:
                    locs.append((fid, l))
            for pl in info["deref_assigned"]:
                loc, _ = self.resolve(st, fid, pl)
                if loc not in locs and loc in st.mem:
                    locs.append(loc)
            leaves = []
            for loc in locs:
                leaves += self.loop_leaves(st, loc, self.locname(body, fid, loc))
            st.loopinfo[key] = tuple(leaves)
            vals = {}
            for loc, path, nm in leaves:
                vals[nm] = self.val(st, self.read_loc(st, loc, path))
            st.effects.append(Effect("loop_enter", name=lk, value=vals, site=self.site(body, body.blocks[bb]["term"]["line"]),
                                     loops=st.loopstack, stack=st.stack))
            st.loopstack = st.loopstack + (lk,)
        else:
            leaves = st.loopinfo[key]
            vals = {}
            for loc, path, nm in leaves:
                vals[nm] = self.val(st, self.read_loc(st, loc, path))
            st.effects.append(Effect("loop_step", name=lk, value=vals, site=self.site(body, body.blocks[bb]["term"]["line"]),
                                     loops=st.loopstack, stack=st.stack))
            if st.loopstack and st.loopstack[-1] == lk:
                st.loopstack = st.loopstack[:-1]
        for loc, path, nm in leaves:
            cur = self.read_loc(st, loc, path)
            if isinstance(cur, tuple) and cur and cur[0] == "ref":
                continue  # a reference that is re-borrowed in the loop keeps its target
            self.write_loc(st, loc, path, ("loopvar", lk, nm, cnt))
        st.loopcnt[key] = cnt + 1
        return True

    def locname(self, body, fid, loc):
        if loc[0] == fid:
            return body.locals[loc[1]].get("name") or ("_%d" % loc[1])
        return "#%s_%s" % (loc[0], loc[1])

    def eval_switch(self, st, body, fid, t):
        v = self.val(st, self.eval_operand(st, body, fid, t["o"]))
        site = self.site(body, t["line"])
        arms = t["arms"]
        other = t["otherwise"]
        if v[0] != "lit":
            tg = [a[1] for a in arms] + [other]
            live = [x for x in tg if not (body.blocks[x]["term"]["t"] == "unreachable" and not body.blocks[x]["stmts"])]
            if live and all(body.pure_tail(x) for x in live):
                return [(st, live[0])]      # drop glue: the choice cannot influence state or result
        if t["ty"] == "bool":
            # arms: [["0", bbF]] otherwise bbT
            res = []
            for s_i, bval in self.force_bool(st, v, site):
                tgt = other
                for val, tg in arms:
                    if (val == "0" and not bval) or (val == "1" and bval):
                        tgt = tg
                res.append((s_i, tgt))
            return res
        if v[0] == "lit":
            for val, tg in arms:
                if int(val) == int(v[1]):
                    return [(st, tg)]
            return [(st, other)]
        if v[0] == "discr":
            base, adt = v[1], v[2]
            a = self.facts.adt(adt) if adt else None
            if a is not None:
                listed = {}
                for val, tg in arms:
                    n = self.facts.variant_by_discr(adt, val)
                    listed[n] = tg
                other_unreach = body.blocks[other]["term"]["t"] == "unreachable" and not body.blocks[other]["stmts"]
                res = []
                for s_i, n, _ in self.force_enum(st, base, adt, site):
                    if n in listed:
                        res.append((s_i, listed[n]))
                    elif not other_unreach:
                        res.append((s_i, other))
                return res
        # integer switch on an opaque value
        res = []
        known = st.refine.get(v)
        excluded = ()
        if known is not None:
            for val, tg in arms:
                if ("=", int(val)) == known:
                    return [(st, tg)]
            if known[0] == "=":
                return [(st, other)]
            if known[0] == "notin":
                excluded = known[1]
        vals = []
        for val, tg in arms:
            if int(val) in excluded:
                continue
            s2 = st.copy()
            s2.refine[v] = ("=", int(val))
            s2.conds.append((v, ("=", int(val)), site, len(s2.effects)))
            res.append((s2, tg))
            vals.append(int(val))
        if not (body.blocks[other]["term"]["t"] == "unreachable" and not body.blocks[other]["stmts"]):
            st.conds.append((v, ("notin", tuple(vals)), site, len(st.effects)))
            st.refine[v] = ("notin", tuple(sorted(set(vals) | set(excluded))))
            res.append((st, other))
        return res

    # ------------------------------------------------------------------ calls
    def do_call(self, st, body, fid, t, depth):
        site = self.site(body, t["line"])
        args = [self.eval_operand(st, body, fid, a) for a in t["args"]]
        if "callee" not in t:
            f = self.val(st, self.eval_operand(st, body, fid, t["callee_op"]))
            return self.call_value(st, f, args, site, depth)
        rk = t.get("res_kind")
        if rk in ("item", "closure_once", "shim", "fnptr") and t.get("resolved"):
            dp, pretty = t["resolved_dp"], t["resolved"]
        else:
            dp, pretty = t["callee_dp"], t["callee"]
        name = self.canon.get(dp) or strip_generics(pretty)
        trait_name = self.canon.get(t["callee_dp"]) or strip_generics(t["callee"])
        ctor = t.get("ctor")
        return self.call_named(st, dp, name, trait_name, ctor, args, site, depth, t, cfid=fid)

    def call_value(self, st, f, args, site, depth):
        n_ = 0
        while isinstance(f, tuple) and f and f[0] == "ref" and n_ < 8:
            f = self.read_loc(st, f[1], f[2])       # shallow: the closure's captured `&mut` places must stay references
            n_ += 1
        if f[0] == "closure":
            b = self.by_dp.get(f[1])
            if b is None:
                return [(st, ("unknown", "closure-body-missing", f[1]))]
            if depth >= self.max_depth:
                return [(st, ("unknown", "depth", b.path))]
            return self.run_body(st, b, [f] + list(args), depth + 1, site, tyenv=self._closure_env.get(f[1]))
        if f[0] == "fnitem":
            return self.call_named(st, f[1], f[2], f[2], UNHD(f[3]), args, site, depth, None)
        return [(st, ("call", "<indirect>", (self.val(st, f),) + tuple(self.val(st, a) for a in args)))]

    def contradictory_emptiness(self, st):
        """two loops walk the same input collection (a parameter or a field of one: an immutable value) and one finds it empty while
        the other takes an element from it - the 0/1-iteration approximation of each loop separately produced a path that is not
        an execution"""
        seen = {}
        for e in st.effects:
            if e.kind != "loop_enter":
                continue
            for c in st.conds:
                t = c[0]
                if t[0] == "calli" and t[1] == "next" and t[2] and t[2][0][0] == "loopvar" and t[2][0][1] == e.name and t[2][0][3] == 0 \
                        and c[1] in ("Some", "None"):
                    coll = e.value.get(t[2][0][2]) if isinstance(e.value, dict) else None
                    n = 0
                    while coll is not None and coll[0] == "call" and coll[2] and n < 6 and \
                            coll[1].split("::")[-1] in ("iter", "into_iter", "cloned", "copied", "by_ref", "enumerate", "rev", "as_slice", "deref"):
                        coll, n = coll[2][0], n + 1
                    if coll is None or contains_kind(coll, ("call", "calli", "unknown", "loopvar", "may_load", "load")):
                        break
                    if seen.setdefault(coll, c[1]) != c[1]:
                        return True
                    break
        return False

    def bind_generics(self, b, dp, t, cfid):
        """type parameters of the inlined generic function `b`, bound to the type arguments its call site names (read through
        the caller's own bindings) - lets trait methods called through a type parameter inside `b` be dispatched"""
        if t is None or not b.generics:
            return None
        if dp == t.get("callee_dp"):
            subs = t.get("substs") or []
        elif dp == t.get("resolved_dp"):
            subs = t.get("resolved_substs") or []      # a trait method resolved to the impl that runs
        else:
            return None
        if len(subs) != len(b.generics):
            return None
        cenv = self._tyenv.get(cfid) or {}
        return {g: cenv.get(s_["ty"], s_["ty"]) for g, s_ in zip(b.generics, subs)}

    def call_named(self, st, dp, name, trait_name, ctor, args, site, depth, t, cfid=None):
        if ctor:
            vals = tuple(args)
            a = self.facts.adt(ctor["adt"])
            names = None
            if a:
                for v in a["variants"]:
                    if v["name"] == ctor["variant"]:
                        names = [f["name"] for f in v["fields"]]
            names = names or [str(i) for i in range(len(vals))]
            if ctor["is_enum"]:
                return [(st, rewrap(ctor["adt"], ctor["variant"], tuple(zip(names, vals))))]
            return [(st, ("struct", ctor["adt"], tuple(zip(names, vals))))]
        # closure invocation through Fn* traits
        if trait_name in ("std::ops::FnOnce::call_once", "std::ops::Fn::call", "std::ops::FnMut::call_mut"):
            f = args[0]
            n_ = 0
            while isinstance(f, tuple) and f and f[0] == "ref" and n_ < 8:
                f = self.read_loc(st, f[1], f[2])
                n_ += 1
            targs = args[1] if len(args) > 1 else UNIT
            if targs[0] == "ref":
                targs = self.read_loc(st, targs[1], targs[2])
            if targs[0] == "tuple":
                cargs = list(targs[1])
            elif targs == UNIT:
                cargs = []
            else:
                cargs = [targs]
            return self.call_value(st, f, cargs, site, depth)
        b = self.by_dp.get(dp)
        if b is not None and b.path not in self.opaque and name not in self.opaque:
            if depth >= self.max_depth or b.path in st.stack:
                return [(st, ("call", b.path, tuple(self.val(st, a) for a in args)))]
            return self.run_body(st, b, list(args), depth + 1, site, tyenv=self.bind_generics(b, dp, t, cfid))
        if b is not None:
            # workspace function kept atomic at the rule's request
            return [(st, ("call", b.path, tuple(self.val(st, a) for a in args)))]
        if t is not None and t.get("res_kind") in ("unresolved", "virtual") and t.get("substs") and cfid is not None:
            # a trait method called through a type parameter of an inlined generic function: when the call site bound that
            # parameter to a workspace type with its own impl, that impl runs - not the primitive standing for the trait
            sty = (self._tyenv.get(cfid) or {}).get(t["substs"][0]["ty"])
            arith = {"core::ops::arith::Add::add": "add", "core::ops::arith::Sub::sub": "sub", "core::ops::arith::Mul::mul": "mul",
                     "core::ops::arith::Div::div": "div", "core::ops::arith::Rem::rem": "rem"}.get(t["callee_dp"])
            if sty in _INT_BITS and arith and len(args) == 2:
                # `a + b` spelled through a type parameter bound to a primitive integer: the integer's own (checked) operator
                return [(st, fold_bin(arith, self.val(st, args[0]), self.val(st, args[1]), True))]
            nref = 0
            if sty:
                import re as _re
                bare = _re.sub(r"^(&('\w+ )?(mut )?)+", "", sty)      # `&T: Trait` by the blanket impls forwards to T's
                nref = sty[:len(sty) - len(bare)].count("&")
                sty = bare
            if sty and self.facts.is_workspace_type(strip_generics(sty)):
                impl = self.resolve_trait_call(st, t["callee_dp"], None, ty=strip_generics(sty))
                if impl is not None and depth < self.max_depth and impl.path not in st.stack:
                    cargs = list(args)
                    for _ in range(nref):           # the forwarding impls hand on `*self`
                        if cargs and isinstance(cargs[0], tuple) and cargs[0] and cargs[0][0] == "ref":
                            inner = self.read_loc(st, cargs[0][1], cargs[0][2])
                            if isinstance(inner, tuple) and inner and inner[0] == "ref":
                                cargs[0] = inner
                    return self.run_body(st, impl, cargs, depth + 1, site)
        h = self.prims.lookup(name, trait_name)
        if h is not None:
            self._cur_cfid = cfid
            return h(self, st, name, args, site, depth, t)
        if t is not None and t.get("res_kind") in ("unresolved", "virtual") and args:
            # a workspace trait method called through a type parameter or `dyn Trait`: dispatch on what the receiver is
            impl = self.resolve_trait_call(st, t["callee_dp"], args[0])
            if impl is None and t.get("substs"):
                # ... or on what the enclosing generic function's call site bound `Self` to
                sty = (self._tyenv.get(cfid) or {}).get(t["substs"][0]["ty"])
                if sty:
                    impl = self.resolve_trait_call(st, t["callee_dp"], None, ty=strip_generics(sty))
            if impl is not None and depth < self.max_depth and impl.path not in st.stack:
                return self.run_body(st, impl, list(args), depth + 1, site)
        self.unmodelled[name] = self.unmodelled.get(name, 0) + 1
        if t is not None and (t.get("resolved_dp") or t.get("callee_dp")) in self.facts.skipped_dp:
            # a workspace function whose body was not exported (macro-generated) and that no primitive stands for: whatever it
            # does is invisible - fail closed
            self.blind.add((name, "@" + (site[2] if site and len(site) > 2 else "?")))
        return self.prims.opaque_call(self, st, name, args, site, t)


def _walk_terms(t):
    stack = [t]
    while stack:
        x = stack.pop()
        if isinstance(x, tuple):
            if x and isinstance(x[0], str):
                yield x
            for y in x:
                if isinstance(y, tuple):
                    stack.append(y)


class HDict(dict):
    def __hash__(self):
        return hash(tuple(sorted(self.items())))


def HD(d):
    if d is None:
        return None
    return HDict(d)


def UNHD(d):
    return d


def contains_kind(t, kinds):
    if not isinstance(t, tuple):
        return False
    if t and isinstance(t[0], str) and t[0] in kinds:
        return True
    return any(contains_kind(x, kinds) for x in t if isinstance(x, tuple))


def rewrap(adt, v, fs):
    """Some(x's payload) where x was decided Some is x itself (same for Ok): `if let Some(g) = o { c.f = Some(g) }` and
    `if o.is_some() { c.f = o }` store the same value and summarise to the same term"""
    if adt in (OPTION, RESULT) and v in ("Some", "Ok") and len(fs) == 1:
        x = fs[0][1]
        if isinstance(x, tuple) and x and x[0] == "vfield" and x[2] == v and x[3] == "0" and adt == OPTION:
            return x[1]
    if adt.endswith("::CosmosMsg") and len(fs) == 1 and isinstance(fs[0][1], tuple) and fs[0][1] and fs[0][1][0] == "variant" \
            and fs[0][1][1].endswith("::" + v + "Msg"):
        # CosmosMsg::Wasm(m) built by hand is what `m.into()` builds (the From impls are identities in the term language)
        return fs[0][1]
    return ("variant", adt, v, fs)


def negate(a):
    if a[0] == "not":
        return a[1]
    if a[0] == "lit" and isinstance(a[1], bool):
        return ("lit", not a[1])
    return ("not", a)


def mkcmp(op, a, b):
    if a[0] == "lit" and b[0] == "lit":
        try:
            if op == "eq":
                return ("lit", a[1] == b[1])
            if op == "lt":
                return ("lit", a[1] < b[1])
            if op == "le":
                return ("lit", a[1] <= b[1])
        except TypeError:
            pass
    if op == "eq":
        # `flag == true` is the flag, `flag == false` its negation (ensure_eq!(x.is_admin(..), true, ..))
        for x, y in ((a, b), (b, a)):
            if y[0] == "lit" and isinstance(y[1], bool) and x[0] != "lit":
                return x if y[1] else negate(x)
        # field-less enum variants / identical terms
        if a == b and not contains_kind(a, ("unknown", "calli")):
            return TRUE
        if a[0] == "variant" and b[0] == "variant" and a[1] == b[1] and a[2] != b[2]:
            return FALSE
        if repr(a) > repr(b):
            a, b = b, a
    return ("cmp", op, a, b)


def fold_bin(op, a, b, exact):
    if a[0] == "lit" and b[0] == "lit" and isinstance(a[1], int) and isinstance(b[1], int) \
            and not isinstance(a[1], bool) and not isinstance(b[1], bool):
        try:
            if op == "add":
                return ("lit", a[1] + b[1])
            if op == "sub":
                return ("lit", a[1] - b[1])
            if op == "mul":
                return ("lit", a[1] * b[1])
            if op == "div" and b[1] != 0:
                return ("lit", a[1] // b[1])
            if op == "rem" and b[1] != 0:
                return ("lit", a[1] % b[1])
            if op == "bitand":
                return ("lit", a[1] & b[1])
        except Exception:
            pass
    return ("bin", op if exact else (op + "_wrapping"), a, b)


sys.setrecursionlimit(100000)
