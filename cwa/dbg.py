"""debug: python3 -m cwa.dbg <fn path> [--all]"""
import sys, glob, time
from .facts import Facts
from .engine import Engine, show
from .extract import ensure_facts

def main():
    fdir = ensure_facts()[0]
    F = Facts(fdir)
    E = Engine(F)
    fn = sys.argv[1]
    t0 = time.time()
    paths = E.summarise(fn)
    print("paths:", len(paths), "time %.2fs" % (time.time() - t0))
    only_ok = "--ok" in sys.argv
    for i, p in enumerate(paths):
        if only_ok and not p.is_ok():
            continue
        print("== path", i, "OK" if p.is_ok() else ("ERR" if p.is_err() else "?"))
        for c in p.conds:
            print("   cond", show(c[0]), "=>", c[1], "@", c[2][1] if c[2] else "")
        for e in p.effects:
            print("   eff ", e)
        print("   ret ", show(p.ret))
        if p.notes:
            print("   notes", p.notes)
    print("unmodelled:", sorted(E.unmodelled.items(), key=lambda x: -x[1]))

main()
