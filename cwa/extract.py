"""Fresh MIR facts for /repo's current working tree.

`ensure_facts()` hashes the tree (content, not mtime).  Facts are re-extracted through the cwfacts
driver unless a complete facts directory for exactly this content already exists.  A missing
facts file is an error, never an empty pass.
"""
import fcntl
import glob
import hashlib
import os
import shutil
import subprocess
import sys
import time

VERIF = os.path.dirname(os.path.dirname(os.path.abspath(__file__)))
REPO = os.environ.get("CW_REPO", "/repo")
CACHE = os.environ.get("CW_CACHE", os.path.join(VERIF, ".cache"))
DRIVER_DIR = os.path.join(VERIF, "driver")
DRIVER = os.path.join(DRIVER_DIR, "target", "debug", "cwfacts")

from .facts import WORKSPACE_CRATES

MEMBERS = ["cw1", "cw20", "cw3", "cw4", "easy-addr", "cw1-subkeys", "cw1-whitelist", "cw20-base",
           "cw20-ics20", "cw3-fixed-multisig", "cw3-flex-multisig", "cw4-group", "cw4-stake"]


# What is analysed is what gets deployed, not what the tests run: the release artefact has no debug assertions (a guard turned
# into `debug_assert!` passes every test and is absent on chain), so the MIR is built without them.  Overflow checks stay on in the
# MIR - whether the deployed build keeps them is the separate obligation A-OVF, read from the release profile on every run.
RUSTFLAGS = "-Zmir-opt-level=0 -Awarnings -Cdebug-assertions=off -Coverflow-checks=on"


class ExtractError(Exception):
    pass


def tree_hash(repo=None):
    repo = repo or REPO
    h = hashlib.sha256()
    files = []
    for root, dirs, fs in os.walk(repo):
        rel = os.path.relpath(root, repo)
        if rel == ".":
            dirs[:] = [d for d in dirs if d not in (".git", "target")]
        dirs.sort()
        for f in sorted(fs):
            if f.endswith((".rs", ".toml", ".lock")):
                files.append(os.path.join(root, f))
    for f in files:
        h.update(os.path.relpath(f, repo).encode())
        h.update(b"\0")
        with open(f, "rb") as fh:
            h.update(fh.read())
        h.update(b"\0")
    # the driver and the flags it runs under are part of the identity of the facts
    h.update(RUSTFLAGS.encode())
    for f in sorted(glob.glob(os.path.join(DRIVER_DIR, "src", "*.rs"))):
        with open(f, "rb") as fh:
            h.update(fh.read())
    return h.hexdigest()[:24], len(files)


def sysroot():
    return subprocess.check_output(["rustc", "+nightly", "--print", "sysroot"], text=True).strip()


def build_driver():
    src_m = max(os.path.getmtime(f) for f in glob.glob(os.path.join(DRIVER_DIR, "src", "*.rs")))
    if os.path.exists(DRIVER) and os.path.getmtime(DRIVER) >= src_m:
        return
    env = dict(os.environ, CARGO_NET_OFFLINE="true")
    r = subprocess.run(["cargo", "build", "--offline"], cwd=DRIVER_DIR, env=env,
                       stdout=subprocess.PIPE, stderr=subprocess.STDOUT, text=True)
    if r.returncode != 0 or not os.path.exists(DRIVER):
        raise ExtractError("driver build failed:\n" + r.stdout[-4000:])


def run_driver(repo, out_dir, target_dir, extra_args=None, features_lib=False):
    os.makedirs(out_dir, exist_ok=True)
    # cargo's freshness cache would silently skip the wrapper: forget the members' fingerprints
    fp = os.path.join(target_dir, "debug", ".fingerprint")
    if os.path.isdir(fp):
        for m in MEMBERS:
            for d in glob.glob(os.path.join(fp, m + "-*")):
                shutil.rmtree(d, ignore_errors=True)
    env = dict(os.environ)
    env.update({
        "CWFACTS_OUT": out_dir,
        "LD_LIBRARY_PATH": os.path.join(sysroot(), "lib") + ":" + env.get("LD_LIBRARY_PATH", ""),
        "RUSTFLAGS": RUSTFLAGS,
        "RUSTC_WORKSPACE_WRAPPER": DRIVER,
        "CARGO_TARGET_DIR": target_dir,
        "CARGO_NET_OFFLINE": "true",
    })
    env.pop("RUSTC_WRAPPER", None)
    cmd = ["cargo", "+nightly", "check", "--offline", "--workspace", "--lib"] + (extra_args or [])
    r = subprocess.run(cmd, cwd=repo, env=env, stdout=subprocess.PIPE, stderr=subprocess.STDOUT, text=True)
    if r.returncode != 0:
        raise ExtractError("cargo check of %s failed (the tree does not compile?):\n%s" % (repo, r.stdout[-6000:]))
    missing = [c for c in WORKSPACE_CRATES if not os.path.exists(os.path.join(out_dir, c + ".json"))]
    if missing:
        raise ExtractError("driver produced no facts for crates %s (wrapper skipped?)\n%s" % (missing, r.stdout[-3000:]))


def ensure_facts(repo=None, force=False, log=None):
    """returns (facts_dir, tree_hash, n_files, extracted: bool, seconds)"""
    repo = repo or REPO
    t0 = time.time()
    pre = os.environ.get("CW_FACTS_DIR")
    if pre:
        # development hook (tools/corpus.py): rules re-evaluated on facts extracted earlier for a corpus patch;
        # no registered command sets it
        return pre, "prebuilt:" + os.path.basename(pre), 0, False, 0.0
    os.makedirs(CACHE, exist_ok=True)
    lock = open(os.path.join(CACHE, "lock"), "w")
    fcntl.flock(lock, fcntl.LOCK_EX)
    try:
        build_driver()
        hsh, nfiles = tree_hash(repo)
        fdir = os.path.join(CACHE, "facts", hsh)
        done = os.path.join(fdir, "DONE")
        if os.path.exists(done) and not force:
            ok = all(os.path.exists(os.path.join(fdir, c + ".json")) for c in WORKSPACE_CRATES)
            if ok:
                return fdir, hsh, nfiles, False, time.time() - t0
        if os.path.isdir(fdir):
            shutil.rmtree(fdir)
        os.makedirs(fdir)
        if log:
            log("extracting MIR facts for tree %s (%d files)…" % (hsh, nfiles))
        run_driver(repo, fdir, os.path.join(CACHE, "target"))
        with open(done, "w") as f:
            f.write(hsh)
        # prune old facts dirs (keep the 6 newest)
        base = os.path.join(CACHE, "facts")
        ds = sorted((os.path.getmtime(os.path.join(base, d)), d) for d in os.listdir(base))
        for _, d in ds[:-6]:
            shutil.rmtree(os.path.join(base, d), ignore_errors=True)
        return fdir, hsh, nfiles, True, time.time() - t0
    finally:
        fcntl.flock(lock, fcntl.LOCK_UN)
        lock.close()


def load_facts(force=False, log=None, repo=None):
    """ensure_facts and the reading of the facts files, both under the cache lock: a concurrent run that re-extracts the same tree
    (thorough tier) or prunes old facts directories cannot pull the files away while they are being read.
    returns (Facts, facts_dir, tree_hash, n_files, extracted, seconds)"""
    from .facts import Facts
    if os.environ.get("CW_FACTS_DIR"):
        fdir, hsh, nfiles, extracted, secs = ensure_facts(repo, force, log)
        return Facts(fdir), fdir, hsh, nfiles, extracted, secs
    os.makedirs(CACHE, exist_ok=True)
    outer = open(os.path.join(CACHE, "lock.read"), "w")
    fcntl.flock(outer, fcntl.LOCK_EX)
    try:
        fdir, hsh, nfiles, extracted, secs = ensure_facts(repo, force, log)
        return Facts(fdir), fdir, hsh, nfiles, extracted, secs
    finally:
        fcntl.flock(outer, fcntl.LOCK_UN)
        outer.close()


if __name__ == "__main__":
    try:
        r = ensure_facts(force="--force" in sys.argv, log=lambda m: print(m, file=sys.stderr))
        print(r)
    except ExtractError as e:
        print("EXTRACT ERROR:", e, file=sys.stderr)
        sys.exit(2)
