"""Shared rule idioms over path summaries (DESIGN.md 4.1)."""
from .engine import OPTION, RESULT, contains_kind, show

ENGINE = None      # set by ./check: lets type questions about message / storage fields be answered from the facts

ABI = ("instantiate", "execute", "query", "migrate", "reply", "sudo", "ibc_channel_open",
       "ibc_channel_connect", "ibc_channel_close", "ibc_packet_receive", "ibc_packet_ack", "ibc_packet_timeout")


def entry_points(facts, crate):
    """ABI entry points of a contract crate: free functions with an ABI name whose first parameter is Deps / DepsMut, in whatever
    module they live (the export macro leaves no trace in host builds, so name + signature identify them).  A second function
    with the same ABI name elsewhere in the crate is kept under "<name>@<module>" so that no rule overlooks it."""
    out = {}
    extra = []
    for b in facts.bodies.values():
        if b.crate == crate and b.kind == "fn":
            parts = b.path.split("::")
            if parts[-1] not in ABI or "<" in b.path or not b.argc:
                continue
            if not b.locals[1]["ty"].lstrip("&").startswith("cosmwasm_std::Deps"):
                continue
            if len(parts) == 3 and parts[1] in ("contract", "ibc"):
                out[parts[2]] = b.path
            else:
                extra.append((parts[-1], "::".join(parts[1:-1]), b.path))
    for name, mod, path in sorted(extra):
        if name not in out:
            out[name] = path
        else:
            out["%s@%s" % (name, mod)] = path
    return out


def dispatch(paths, param="msg"):
    """group paths by the variant of the message parameter chosen first; returns {variant: [paths]}"""
    groups = {}
    for p in paths:
        v = None
        for c in p.conds:
            if c[0] == ("param", param) and isinstance(c[1], str):
                v = c[1]
                break
        groups.setdefault(v, []).append(p)
    return groups


def sub_dispatch(paths, term):
    groups = {}
    for p in paths:
        v = None
        for c in p.conds:
            if c[0] == term and isinstance(c[1], str):
                v = c[1]
                break
        groups.setdefault(v, []).append(p)
    return groups


def msg_field(variant, name, param="msg"):
    return ("vfield", ("param", param), variant, name)


# ------------------------------------------------------------------------ arithmetic normal form
INEXACT_WORDS = ("saturating", "wrapping", "abs_diff", "overflowing", "unchecked")


class NF(object):
    """signed multiset of atoms + integer constant; `inexact` lists operations outside the exact class"""

    def __init__(self):
        self.atoms = {}
        self.const = 0
        self.inexact = []

    def add_atom(self, a, sign):
        self.atoms[a] = self.atoms.get(a, 0) + sign
        if self.atoms[a] == 0:
            del self.atoms[a]

    def merge(self, o, sign):
        for a, c in o.atoms.items():
            self.add_atom(a, c * sign)
        self.const += o.const * sign
        self.inexact += o.inexact

    def key(self):
        return (tuple(sorted(((repr(a), c) for a, c in self.atoms.items()))), self.const)

    def __eq__(self, o):
        return self.key() == o.key()

    def show(self):
        parts = []
        for a, c in sorted(self.atoms.items(), key=lambda x: repr(x[0])):
            parts.append(("+" if c > 0 else "-") + (str(abs(c)) + "*" if abs(c) != 1 else "") + show(a))
        if self.const:
            parts.append("%+d" % self.const)
        return "{" + " ".join(parts) + "}"


_CHECKED = {"cosmwasm_std::Uint128::checked_add": 1, "cosmwasm_std::Uint64::checked_add": 1,
            "cosmwasm_std::Uint128::checked_sub": -1, "cosmwasm_std::Uint64::checked_sub": -1,
            "cosmwasm_std::Decimal::checked_add": 1, "cosmwasm_std::Decimal::checked_sub": -1}


def nf(t):
    """arithmetic normal form of a term (exact + and - flattened)"""
    r = NF()
    _nf(t, 1, r)
    return r


def _nf(t, sign, r):
    k = t[0] if isinstance(t, tuple) and t else None
    if k == "lit" and isinstance(t[1], int) and not isinstance(t[1], bool):
        r.const += sign * t[1]
        return
    if k == "bin" and t[1] in ("add", "sub"):
        _nf(t[2], sign, r)
        _nf(t[3], sign if t[1] == "add" else -sign, r)
        return
    if k == "bin" and (t[1].endswith("_wrapping") and t[1].split("_")[0] in ("add", "sub")):
        r.inexact.append(t[1])
        _nf(t[2], sign, r)
        _nf(t[3], sign if t[1].startswith("add") else -sign, r)
        return
    if k == "vfield" and t[2] in ("Ok", "Some") and t[1][0] == "call" and len(t[1][2]) == 2 and \
            (t[1][1] in _CHECKED or t[1][1].endswith(("::checked_add", "::checked_sub"))):
        # the successful result of a checked add / sub (Uint128 -> Result, primitive integers -> Option) is the exact sum
        a, b = t[1][2]
        sg = _CHECKED.get(t[1][1], 1 if t[1][1].endswith("checked_add") else -1)
        _nf(a, sign, r)
        _nf(b, sign * sg, r)
        return
    if k == "unwrap_or" and (t[2][0] == "default" or t[2] == ("lit", 0)):
        r.add_atom(("orzero", t[1]), sign)
        return
    if k == "default":
        return  # Default of a numeric type is zero
    if k == "call" and any(w in t[1] for w in INEXACT_WORDS):
        r.inexact.append(t[1])
    r.add_atom(t, sign)


def previous_or_zero(p, old):
    """NF atom(s) for `previous value of an optional entry, or 0`: the payload when path p decided the entry present,
    nothing when it decided it absent, the symbolic orzero(old) when it did not look"""
    r = NF()
    dec = [c[1] for c in p.conds if c[0] == old and c[1] in ("Some", "None")] if p is not None else []
    if dec == ["Some"]:
        r.add_atom(("vfield", old, "Some", "0"), 1)
    elif dec == ["None"]:
        pass
    else:
        r.add_atom(("orzero", old), 1)
    return r


def inexact_ops(t, acc=None):
    """names of saturating / wrapping operations anywhere inside a term"""
    acc = [] if acc is None else acc
    if isinstance(t, tuple) and t:
        if t[0] in ("call", "calli") and any(w in t[1] for w in INEXACT_WORDS):
            acc.append(t[1])
        if t[0] == "bin" and isinstance(t[1], str) and t[1].endswith("_wrapping"):
            acc.append(t[1])
        for x in t[1:]:
            if isinstance(x, tuple):
                inexact_ops(x, acc)
    return acc


# ------------------------------------------------------------------------ loaded values
def loaded_from(t):
    """if t is the value obtained from a storage read, return (item, key, ver, how) else None.
    Shapes: vfield(load(..),Ok,0); vfield(vfield(may_load(..),Ok,0),Some,0); vfield(oldval,Some,0);
    unwrap_or(oldval|..., default)  (how = 'orzero'); oldval itself for Item::update (how='update')."""
    if not isinstance(t, tuple) or not t:
        return None
    if t[0] == "vfield" and t[2] == "Ok" and t[1][0] == "load":
        return (t[1][1], t[1][2], t[1][3], "load")
    if t[0] == "vfield" and t[2] == "Some":
        b = t[1]
        if b[0] == "oldval":
            return (b[1], b[2], b[3], "update")
        if b[0] == "vfield" and b[2] == "Ok" and b[1][0] == "may_load":
            return (b[1][1], b[1][2], b[1][3], "may_load")
    if t[0] == "unwrap_or":
        b = t[1]
        if b[0] == "oldval":
            return (b[1], b[2], b[3], "orzero")
        if b[0] == "vfield" and b[2] == "Ok" and b[1][0] == "may_load":
            return (b[1][1], b[1][2], b[1][3], "orzero")
    return None


def stored_entry(e, p):
    """for a read-modify-write effect e: (term of the entry read before the write, decided present on path p?).
    `load` fails when the entry is absent, `may_load` / update's closure argument is an Option decided by a branch"""
    if e.old is None:
        return None, False
    if e.old[0] == "vfield" and e.old[1][0] == "load":
        return e.old, True
    return ("vfield", e.old, "Some", "0"), any(c[0] == e.old and c[1] == "Some" for c in p.conds)


def field_of(t, name):
    """value of field `name` of a struct-like term (struct / update chains), else ('field', t, name)"""
    k = t[0]
    if k == "struct":
        for n, v in t[2]:
            if n == name:
                return v
    if k == "update":
        for n, v in t[2]:
            if n == name:
                return v
        return field_of(t[1], name)
    if k == "variant":
        for n, v in t[3]:
            if n == name:
                return v
    return ("field", t, name)


def update_base(t):
    """strip update layers: returns (base, {field: value})"""
    fields = {}
    while t[0] == "update":
        for n, v in t[2]:
            fields.setdefault(n, v)
        t = t[1]
    # a field assigned its own current value (`x.f = match o { Some(v) => v, None => x.f }`) is not changed
    for n in [n for n, v in fields.items() if v == ("field", t, n)]:
        del fields[n]
    return t, fields


# ------------------------------------------------------------------------ conditions / guards
def conds_before(path, eff_index):
    return [c for c in path.conds if c[3] <= eff_index]


def find_cond(path, pred, before=None):
    for c in path.conds:
        if before is not None and c[3] > before:
            continue
        if pred(c[0], c[1]):
            return c
    return None


def eff_index(path, eff):
    for i, e in enumerate(path.effects):
        if e is eff:
            return i
    return None


def _variant_names(lst):
    """names of a list literal of field-less enum variants, else None"""
    if lst[0] != "list":
        return None
    out = set()
    for x in lst[1]:
        if not (x[0] == "variant" and not x[3]):
            return None
        out.add(x[2])
    return out


def possible_variants(ctx, p, term, adt, before=None):
    """the set of variants of the field-less enum `adt` that `term` can still be after the decisions of path p, whichever
    way they were spelled: [A, B].contains(&t), matches!(t, A | B) / match t {..} (discriminant decisions), t == A, t != A,
    [A, B].iter().any(|v| *v == t), [A, B].iter().all(|v| *v != t)"""
    names = ctx.facts.variants(adt)
    if names is None:
        return None
    poss = set(names)
    for c in p.conds:
        if before is not None and c[3] > before:
            continue
        t, o = c[0], c[1]
        if t == term and isinstance(o, str):
            poss &= {o}
        elif t[0] == "cmp" and t[1] == "eq" and isinstance(o, bool) and term in (t[2], t[3]):
            other = t[3] if t[2] == term else t[2]
            if other[0] == "variant" and not other[3]:
                poss = (poss & {other[2]}) if o else (poss - {other[2]})
        elif t[0] == "call" and t[1].split("::")[-1] == "contains" and len(t[2]) == 2 and t[2][1] == term and isinstance(o, bool):
            vs = _variant_names(t[2][0])
            if vs is not None:
                poss = (poss & vs) if o else (poss - vs)
        elif t[0] == "call" and t[1].split("::")[-1] in ("any", "all") and len(t[2]) == 2 and isinstance(o, bool) and t[2][1][0] == "closure":
            vs = _variant_names(t[2][0])
            clos = t[2][1]
            if vs is None or term not in clos[2]:
                continue
            b = ctx.engine.by_dp.get(clos[1])
            if b is None:
                continue
            up = ("param", "UPVAR")
            ups = tuple(up if u == term else u for u in clos[2])
            cps = ctx.engine.summarise(b, args=[("closure", clos[1], ups), ("param", "ELEM")])
            if len(cps) != 1:
                continue
            r = cps[0].ret
            neg = False
            while r[0] == "not":
                r, neg = r[1], not neg
            if not (r[0] == "cmp" and r[1] == "eq" and set(r[2:4]) == {up, ("param", "ELEM")}):
                continue
            op = t[1].split("::")[-1]
            # any(v == t): T -> in, F -> out;  all(v != t): T -> out, F -> in;  any(v != t) / all(v == t): no set information
            if op == "any" and not neg:
                poss = (poss & vs) if o else (poss - vs)
            elif op == "all" and neg:
                poss = (poss - vs) if o else (poss & vs)
    return poss


def controller_admin_guard(p, ADMIN, who, before=None):
    """the path decided, before effect index `before`, that `who` is the admin stored in the cw-controllers Admin `ADMIN`:
    ADMIN.assert_admin(deps, who) = Ok, or ADMIN.is_admin(deps, who)? = true (what assert_admin does inside)"""
    for c in p.conds:
        if before is not None and c[3] > before:
            continue
        t, o = c[0], c[1]
        if t[0] == "call" and t[1] == "Admin::assert_admin" and t[2][0] == ADMIN and t[2][-1] == who and o == "Ok":
            return True
        if t[0] == "vfield" and t[2] == "Ok" and t[1][0] == "call" and t[1][1] == "Admin::is_admin" and t[1][2][0] == ADMIN \
                and t[1][2][-1] == who and o is True:
            return True
    return False


def decided_ints(conds, term, before=None):
    """integer values the path decided `term` to be equal to, whichever way the test was spelled:
    `match term { 7 => .. }` (switch decision) or `term == 7` / `7 == term` evaluated true"""
    out = []
    for c in conds:
        if before is not None and c[3] > before:
            continue
        t, o = c[0], c[1]
        if t == term and isinstance(o, tuple) and o and o[0] == "=":
            out.append(o[1])
        elif t[0] == "cmp" and t[1] == "eq" and o is True:
            a, b = t[2], t[3]
            if a == term and b[0] == "lit" and isinstance(b[1], int):
                out.append(b[1])
            elif b == term and a[0] == "lit" and isinstance(a[1], int):
                out.append(a[1])
    return out


def norm_cmp(t):
    """a boolean over totally ordered integers in one spelling: !(a < b) is b <= a, !(a <= b) is b < a"""
    neg = False
    while isinstance(t, tuple) and t and t[0] == "not":
        t, neg = t[1], not neg
    if neg and t[0] == "cmp" and t[1] == "lt":
        return ("cmp", "le", t[3], t[2])
    if neg and t[0] == "cmp" and t[1] == "le":
        return ("cmp", "lt", t[3], t[2])
    return ("not", t) if neg else t


def order_facts(conds, before=None):
    """ordering facts the decisions of a path establish: [(lo, hi, strict, cond)] meaning lo < hi (strict) or lo <= hi.
    (a lt b)=T: a<b;  (a lt b)=F: b<=a;  (a le b)=T: a<=b;  (a le b)=F: b<a - whichever way the source spelled the test
    (`if a >= b {..}`, `ensure!(a < b)`, early return on the negation)."""
    out = []
    for c in conds:
        if before is not None and c[3] > before:
            continue
        t, o = c[0], c[1]
        if t[0] == "cmp" and t[1] in ("lt", "le") and isinstance(o, bool):
            a, b = t[2], t[3]
            if t[1] == "lt":
                out.append((a, b, True, c) if o else (b, a, False, c))
            else:
                out.append((a, b, False, c) if o else (b, a, True, c))
        elif t[0] == "cmp" and t[1] == "eq" and isinstance(o, bool):
            # x == 0 decided false on an unsigned value: 1 <= x  (weights, amounts and counts are unsigned here)
            for a, b in ((t[2], t[3]), (t[3], t[2])):
                if b == ("lit", 0) and o is False:
                    out.append((("lit", 1), a, False, c))
                elif b[0] == "lit" and isinstance(b[1], int) and not isinstance(b[1], bool) and o is True:
                    out.append((b, a, False, c))
                    out.append((a, b, False, c))
        elif isinstance(o, tuple) and o and o[0] == "notin" and 0 in o[1]:
            out.append((("lit", 1), t, False, c))        # `match x { 0 => .., n => .. }` took the other arm
        elif isinstance(o, tuple) and o and o[0] == "=":
            out.append((("lit", o[1]), t, False, c))
            out.append((t, ("lit", o[1]), False, c))
    return out


def check_overflow_profile(ctx):
    """A-OVF is an assumption of every rule that reads a primitive `+`, `-`, `*` or `+=` as aborting on overflow; it holds iff the
    release profile (and no per-package override of it) keeps overflow-checks on.  The tests run in the dev profile, where the
    checks are always on, so nothing else notices when this is switched off."""
    import os
    import re
    from .extract import REPO
    pre = os.environ.get("CW_FACTS_DIR")        # development hook (tools/corpus.py): stored facts come with their tree's manifest
    src = os.path.join(pre, "Cargo.toml") if pre and os.path.exists(os.path.join(pre, "Cargo.toml")) else os.path.join(REPO, "Cargo.toml")
    try:
        txt = open(src).read()
    except OSError:
        txt = ""
    txt = re.sub(r"#[^\n]*", "", txt)
    m = re.search(r"^\[profile\.release\]\s*$(.*?)(^\[|\Z)", txt, re.S | re.M)
    ok = bool(m and re.search(r"^\s*overflow-checks\s*=\s*true\s*$", m.group(1), re.M))
    off = re.findall(r"^\[(profile\.release\.[^\]]+)\]\s*$(?:(?!^\[).)*?^\s*overflow-checks\s*=\s*false", txt, re.S | re.M)
    ctx.ob("A-OVF", "Cargo.toml [profile.release] overflow-checks", ok and not off,
           detail="overflow-checks = true missing from [profile.release]%s: primitive +, -, * and += on u64 / u128 (vote tallies, total "
                  "weights, id counters) would wrap silently in the deployed build" % (" or switched off in [%s]" % off[0] if off else ""),
           trivial=True)
    ctx.rule_texts.setdefault("A-OVF", "release profile keeps overflow-checks = true (no per-package override switches it off): primitive "
                                       "integer arithmetic aborts instead of wrapping")


def config_as_configured(ctx, rule, crate, item, fields, label):
    """instantiate stores the named fields of the configuration exactly as the message gave them (no narrowing, rescaling or
    substitution on the way into storage): everything later is decided against the stored copy"""
    eps = entry_points(ctx.facts, crate)
    n = 0
    if "instantiate" not in eps:
        ctx.ob(rule, "%s/anchor:instantiate" % label, False, detail="%s has no instantiate" % crate, trivial=True)
        return
    for p in ctx.summarise(eps["instantiate"]):
        if p.is_err():
            continue
        for e in p.effects:
            if e.kind == "write" and e.item == item and e.op != "remove":
                n += 1
                for f in fields:
                    got = field_of(e.value, f)
                    ctx.ob(rule, "%s/instantiate/%s stored as configured" % (label, f), got == ("field", ("param", "msg"), f), sites=[e.site],
                           detail="%s: configuration field %s is stored as %s, not msg.%s" % (crate, f, show(got)[:140] if got else None, f),
                           sample={f: show(got)[:120] if got else None})
    ctx.floor(rule, "%s configuration writes in instantiate" % label, n, 1)


def version_literal(t):
    """the semver literal a term denotes: "0.13.0".parse()? / Version::parse("0.13.0")? / Version::new(0, 13, 0) -> "0.13.0" """
    if t[0] == "vfield" and t[2] == "Ok" and t[1][0] == "call" and t[1][1].split("::")[-1] == "parse" and t[1][2] and t[1][2][-1][0] == "str":
        return t[1][2][-1][1]
    if t[0] == "call" and t[1].endswith("Version::new") and len(t[2]) == 3 and all(x[0] == "lit" for x in t[2]):
        return "%d.%d.%d" % tuple(x[1] for x in t[2])
    return None


# ------------------------------------------------------------------------ responses
def response_entries(path):
    """messages of the returned response of an Ok path: list of (how, term); None if not a resp term.
    A response accumulated by a loop that adds each element of a collection as one plain message (`for m in msgs
    { res = res.add_message(m) }`) is reported as what it is: add_messages(collection)."""
    if not path.is_ok():
        return None
    return _resp_entries(path, path.ok_value(), 0)


def _flat_coll(how, x):
    """entries for a loop that adds every element of `x` as one message: a chained / optional / literal sequence is taken apart
    the way add_messages would see it (`refund.into_iter().chain(stored.msgs)` is the refund, then the stored messages)"""
    n = 0
    while x[0] == "call" and len(x[2]) == 1 and x[1].split("::")[-1] in ("into_iter", "iter", "collect", "from_iter", "cloned", "to_vec") and n < 6:
        x, n = x[2][0], n + 1
    if x[0] == "call" and x[1].split("::")[-1] == "chain" and len(x[2]) == 2:
        return _flat_coll(how, x[2][0]) + _flat_coll(how, x[2][1])
    if x[0] == "variant" and x[1] == OPTION:
        return [(how, x[3][0][1])] if x[2] == "Some" else []
    if x[0] == "list":
        return [(how, y) for y in x[1]]
    return [(how + "s", x)]


def _resp_entries(path, r, depth):
    if depth > 6:
        return None
    if r[0] == "resp":
        out = []
        for h, m in r[2]:
            if h == "base":
                b = _resp_entries(path, m, depth + 1)
                if b is None:
                    return None
                out += b
            else:
                out.append((h, m))
        return out
    if r[0] == "update" and set(n for n, _ in r[2]) <= {"attributes", "events"}:
        return _resp_entries(path, r[1], depth + 1)      # attributes / events pushed directly: the messages are the base's
    if r[0] == "loopvar":
        lk, var, k = r[1], r[2], r[3]
        ent = [e for e in path.effects if e.kind == "loop_enter" and e.name == lk]
        stp = [e for e in path.effects if e.kind == "loop_step" and e.name == lk]
        if not ent or var not in ent[0].value:
            return None
        base = _resp_entries(path, ent[0].value[var], depth + 1)
        if base is None:
            return None
        # the iterated collection: the loop variable whose next() drives the loop
        ivar = None
        for c in path.conds:
            t = c[0]
            if t[0] == "calli" and t[1] == "next" and t[2][0][0] == "loopvar" and t[2][0][1] == lk:
                ivar = t[2][0][2]
        if ivar is None or ivar not in ent[0].value:
            return None
        coll = ent[0].value[ivar]
        if k >= 1:
            if not stp or var not in stp[0].value:
                return None
            sv = stp[0].value[var]
            elem = loop_elem(path, lk)
            if sv == ("loopvar", lk, var, 0) or (sv[0] == "resp" and sv[2] == (("base", ("loopvar", lk, var, 0)),) and sv[3] is None):
                return base             # the iteration only adds attributes / events: the messages are those at loop entry
            if not (sv[0] == "resp" and len(sv[2]) == 2 and sv[2][0] == ("base", ("loopvar", lk, var, 0))
                    and sv[2][1][0] in ("msg", "submsg") and sv[2][1][1] == elem and sv[3] is None):
                return None
            return base + _flat_coll(sv[2][1][0], coll)
        # zero iterations on this path: the kind of the entries is the collection's (a prepare_hooks result is sub-messages)
        subs = coll[0] == "call" and coll[1].endswith("prepare_hooks")
        if not subs and coll[0] == "call" and coll[1].split("::")[-1] == "chain":
            # a chained sequence: part by part (an optional element that is present makes this zero-iteration path infeasible,
            # and reporting it keeps the path consistent with its one-iteration sibling)
            out = []
            for h, x in _flat_coll("msg", coll):
                if h == "msg" or x[0] in ("field", "vfield"):
                    out.append((h, x))
            return base + out
        if ENGINE is not None and not subs:
            c0 = coll
            while c0[0] == "call" and c0[2] and c0[1].split("::")[-1] in ("iter", "into_iter", "cloned", "copied", "clone", "to_vec"):
                c0 = c0[2][0]
            ty = ENGINE.collection_type(path.entry, c0)
            if ty is not None and not any(m in ty for m in ("CosmosMsg", "SubMsg", "BankMsg", "WasmMsg")):
                return base             # a loop over something that is not a list of messages (coins, votes, members) adds none
            if ty is None and not (c0[0] in ("field", "vfield") and str(c0[-1]).startswith(("msg", "message"))):
                # an iterator of unknown element type that took no element added nothing either way; only a collection that is
                # recognisably the messages to relay keeps its name, so that zero- and one-iteration paths report the same thing
                return base
        return base + _flat_coll("submsg" if subs else "msg", coll)
    return None


def walk(t):
    """all sub-terms"""
    stack = [t]
    while stack:
        x = stack.pop()
        if isinstance(x, tuple):
            if x and isinstance(x[0], str):
                yield x
            for y in x:
                if isinstance(y, tuple):
                    stack.append(y)


def find_calls(t, name_pred):
    return [x for x in walk(t) if x[0] in ("call", "calli") and name_pred(x[1])]


def site_of(e):
    return e.site if e is not None else None


# ------------------------------------------------------------------------ storage items by namespace
def storage_items(engine, crate):
    """{namespace literal: ('const', dp)} for the storage consts of a crate, read from the initialisers"""
    out = {}
    for c, d in engine.facts.crates.items():
        if c != crate:
            continue
        for b in d["bodies"]:
            if b["kind"] != "const":
                continue
            item = ("const", b["dp"])
            ns = engine.namespace_of(item)
            if ns and (ns[1].startswith("cw_storage_plus::") or ns[1].startswith("cw_controllers::")):
                out[ns[0][0] if ns[0] else b["path"]] = item
    return out


def item_name(engine, item):
    b = engine.by_dp.get(item[1]) if isinstance(item, tuple) and len(item) > 1 else None
    return b.path if b is not None else show(item)


# ------------------------------------------------------------------------ numeric cell deltas
class Delta(object):
    """change of a numeric cell (or of one field of a struct cell) by a write effect"""
    __slots__ = ("nf", "problem", "eff")

    def __init__(self, nf_, problem, eff):
        self.nf = nf_
        self.problem = problem
        self.eff = eff


def cell_delta(eff, field=None, path=None):
    """Delta of write effect `eff` relative to the previous content of the same cell.
    For `update` the previous content is the closure argument; for `save` it must be a read of the same
    item and key at the same write-version (no intervening write: alias safety).  field=None: the cell is
    a number; else the named field of a struct cell (other fields are ignored)."""
    if eff.op == "remove":
        return Delta(None, "cell removed", eff)
    v = eff.value
    if field is not None:
        base, fields = update_base(v)
        lf = loaded_from(base)
        if base[0] == "oldval":
            lf = (base[1], base[2], base[3], "update")
        if (lf is None or lf[0] != eff.item or lf[1] != eff.key) and v[0] == "struct" and field in dict(v[2]):
            # the entry rebuilt field by field (`S { f: old.f - x, g: new }`): the field's previous value is the same field of
            # the entry read from this very cell
            n = nf(dict(v[2])[field])
            prevs = [a for a in n.atoms if a[0] == "field" and a[2] == field and loaded_from(a[1]) is not None
                     and loaded_from(a[1])[0] == eff.item and loaded_from(a[1])[1] == eff.key]
            if len(prevs) == 1 and n.atoms[prevs[0]] == 1:
                if loaded_from(prevs[0][1])[2] != eff.ver:
                    return Delta(None, "read-modify-write with an intervening write to the same item", eff)
                n.add_atom(prevs[0], -1)
                return Delta(n, ("inexact operation %s" % n.inexact) if n.inexact else None, eff)
        if lf is None or lf[0] != eff.item or lf[1] != eff.key:
            return Delta(None, "value saved is not derived from the stored value of the same cell: %s" % show(v)[:200], eff)
        if lf[2] != eff.ver:
            return Delta(None, "read-modify-write with an intervening write to the same item (read at version %s, written at %s)" % (lf[2], eff.ver), eff)
        if field not in fields:
            return Delta(nf(("lit", 0)), None, eff)
        n = nf(fields[field])
        prev = ("field", base, field)
        if n.atoms.get(prev, 0) != 1:
            return Delta(None, "new %s is not previous %s plus/minus something: %s" % (field, field, show(fields[field])[:200]), eff)
        n.add_atom(prev, -1)
        return Delta(n, ("inexact operation %s" % n.inexact) if n.inexact else None, eff)
    n = nf(v)
    prevs = []
    for a, c in n.atoms.items():
        la = None
        if a[0] == "orzero":
            b = a[1]
            if b[0] == "oldval":
                la = (b[1], b[2], b[3])
            elif b[0] == "vfield" and b[2] == "Ok" and b[1][0] == "may_load":
                la = (b[1][1], b[1][2], b[1][3])
        else:
            lf = loaded_from(a)
            if lf is not None:
                la = lf[:3]
        if la is not None and la[0] == eff.item and la[1] == eff.key:
            prevs.append((a, c, la[2]))
    if not prevs and path is not None and eff.old is not None and eff.old[0] == "vfield" and eff.old[1][0] == "may_load" \
            and any(c[0] == eff.old and c[1] == "None" for c in path.conds):
        # read-modify-write of an entry this path decided absent (`match old { Some(x) => x + a, None => a }`): previous = 0
        return Delta(n, ("inexact operation %s" % n.inexact) if n.inexact else None, eff)
    if not prevs and eff.old is not None and eff.old[0] == "vfield" and eff.old[1][0] == "may_load":
        # the previous value cancelled out of the new one (`stake - stake`) or the cell is overwritten by something computed from
        # elsewhere: with the previous value read at this very write (read-modify-write, no write in between) the change is still
        # exactly new - previous
        from .prims import is_rmw
        if is_rmw(eff):
            n.add_atom(("orzero", eff.old), -1)
            return Delta(n, ("inexact operation %s" % n.inexact) if n.inexact else None, eff)
    if len(prevs) != 1 or prevs[0][1] != 1:
        return Delta(None, "value written is not (previous value of the same cell) plus/minus something: %s" % show(v)[:200], eff)
    if prevs[0][2] != eff.ver:
        return Delta(None, "read-modify-write with an intervening write to the same item (read at version %s, written at %s)" % (prevs[0][2], eff.ver), eff)
    n.add_atom(prevs[0][0], -1)
    return Delta(n, ("inexact operation %s" % n.inexact) if n.inexact else None, eff)


# ------------------------------------------------------------------------ loop accumulators
def acc_chain(path, term):
    """follow a loop accumulator back to its base value.
    returns (base_term, [(loopkey, var, delta NF or None)]) - one entry per loop the value went through;
    delta is the per-iteration change (None when the path took zero iterations of that loop)."""
    chain = []
    seen = 0
    while isinstance(term, tuple) and term and term[0] == "loopvar" and seen < 20:
        seen += 1
        lk, var, it = term[1], term[2], term[3]
        ent = [e for e in path.effects if e.kind == "loop_enter" and e.name == lk]
        stp = [e for e in path.effects if e.kind == "loop_step" and e.name == lk]
        if not ent or var not in ent[0].value:
            return term, chain
        delta = None
        if it >= 1 and stp and var in stp[0].value:
            d = nf(stp[0].value[var])
            prev = ("loopvar", lk, var, 0)
            if d.atoms.get(prev, 0) == 1:
                d.add_atom(prev, -1)
                delta = d
            else:
                delta = "not-additive: %s" % show(stp[0].value[var])[:200]
        chain.append((lk, var, delta))
        term = ent[0].value[var]
    return term, chain


def loop_elem(path, lk):
    """the iteration element term of loop lk on this path (iteration 0), or None"""
    for c in path.conds:
        t = c[0]
        if t[0] == "calli" and t[1] == "next" and c[1] == "Some" and t[2][0][0] == "loopvar" and t[2][0][1] == lk and t[2][0][3] == 0:
            return ("vfield", t, "Some", "0")
    return None


# ------------------------------------------------------------------------ storage namespaces are pairwise distinct
def _const_operands(x, acc):
    if isinstance(x, dict):
        if x.get("k") == "const" and "dp" in x:
            acc.add(x["dp"])
        for v in x.values():
            _const_operands(v, acc)
    elif isinstance(x, list):
        for v in x:
            _const_operands(v, acc)


def storage_consts_used(engine, crate):
    """def-path ids of the storage consts (own or imported) that the bodies of `crate` mention"""
    key = ("storage_used", crate)
    cache = engine.__dict__.setdefault("_misc_cache", {})
    if key in cache:
        return cache[key]
    used = set()
    for b in engine.facts.crates[crate]["bodies"]:
        if b["kind"] in ("fn", "closure"):
            _const_operands(b["blocks"], used)
    out = {}
    for dp in used:
        ns = engine.namespace_of(("const", dp))
        if ns and ns[1].startswith(("cw_storage_plus::", "cw_controllers::")):
            names = [x for x in ns[0] if isinstance(x, str) and "::" not in x and "{" not in x]
            out[dp] = names
    cache[key] = out
    return out


def _attr_items(txt):
    """`#[serde(a, b = "x", c(d = "y"))]` -> [("a", None), ("b", '"x"'), ("c", '(d = "y")')]; [] for other attributes"""
    import re as _re
    m = _re.match(r"^#\[\s*serde\s*\((.*)\)\s*\]$", txt.strip(), _re.S)
    if not m:
        return None
    body, out, depth, cur, q = m.group(1), [], 0, "", False
    for ch in body:
        if q:
            cur += ch
            if ch == '"':
                q = False
            continue
        if ch == '"':
            q = True
        if ch in "([{":
            depth += 1
        if ch in ")]}":
            depth -= 1
        if ch == "," and depth == 0:
            out.append(cur)
            cur = ""
        else:
            cur += ch
    out.append(cur)
    items = []
    for it in out:
        it = it.strip()
        if not it:
            continue
        m2 = _re.match(r"^(\w+)\s*(?:=\s*(.*)|(\(.*\)))?$", it, _re.S)
        items.append((m2.group(1), (m2.group(2) or m2.group(3) or None)) if m2 else (it, None))
    return items


# predicates after which a skipped field reads back as the value that was skipped (given the field's absent-value)
_EMPTY_PREDICATES = ("Option::is_none", "Vec::is_empty", "String::is_empty", "BTreeMap::is_empty", "HashMap::is_empty")


def _codec_verdict(where, items, fty):
    """why the serde attributes `items` on a container / variant / field make a stored or relayed value read back differently
    from what was written (None: they do not); `where` is "container" | "variant" | "field" """
    keys = dict(items)
    for k, v in items:
        if k in ("skip", "skip_serializing", "skip_deserializing"):
            if where == "field" and fty and fty.startswith(("std::marker::PhantomData", "core::marker::PhantomData", "()")):
                continue
            return "`%s`: the value is %s" % (k, "not written, so it reads back as the default" if k != "skip_deserializing"
                                              else "written but never read back")
        if k == "skip_serializing_if":
            pred = (v or "").strip().strip('"')
            # what a missing field reads back as: None for an Option without `default`, Default::default() with a bare
            # `default`; a `default = "function"` reads back as whatever that function says - not the value that was skipped
            is_opt = (fty or "").startswith(("std::option::Option<", "core::option::Option<"))
            bare_default = "default" in keys and keys["default"] is None
            absent_ok = bare_default or (is_opt and "default" not in keys)
            if not (pred.endswith(_EMPTY_PREDICATES) and absent_ok):
                return ("`skip_serializing_if = %s`: not one of the recognised is-empty predicates on a field whose absence reads "
                        "back as that empty value" % v)
            continue
        if k in ("rename", "rename_all") and v and v.strip().startswith("("):
            inner = dict(_attr_items("#[serde%s]" % v.strip()) or [])
            if inner.get("serialize") != inner.get("deserialize"):
                return "`%s%s`: written and read under different names" % (k, v.strip())
            continue
        if k in ("with", "serialize_with", "deserialize_with", "getter", "from", "try_from", "into", "remote", "other"):
            return "`%s`: a hand-chosen codec this check does not analyse" % k
        if k in ("default", "alias", "rename", "rename_all", "rename_all_fields", "deny_unknown_fields", "crate", "bound", "borrow",
                 "expecting", "tag", "content"):
            continue
        return "`%s`: not a serde attribute this check knows to keep the round trip intact" % k
    return None


def check_codec(ctx, crates):
    """A-CODEC made checkable.  The engine treats save -> load and message -> JSON -> message as the identity because the codec
    bodies are serde's derive output, which is not analysed.  That holds unless a serde attribute on a workspace type asks the
    derive for something else (skip, custom codec, asymmetric rename) or the codec is written by hand."""
    ctx.rule_texts["CODEC"] = ("what a contract stores or relays reads back as what was written: no workspace type its code touches "
                               "carries a serde attribute that drops a field or variant on one side of the round trip (skip, "
                               "skip_serializing[_if] without a matching absent-value, skip_deserializing), names it differently on "
                               "the two sides, or substitutes a codec that is not serde's derive; and none has a hand-written "
                               "Serialize / Deserialize impl")
    F = ctx.engine.facts
    import re as _re
    seen = set()
    kept = []
    n_adt = n_attr = 0
    # the workspace types the traversed functions handle (their MIR locals), closed under field types
    by_pretty = {}
    for k, a in F.adts.items():
        if a and a.get("local"):
            by_pretty.setdefault(a.get("pretty") or k, k)
            by_pretty.setdefault(k, k)

    def named(ty):
        return [by_pretty[t] for t in _re.findall(r"[A-Za-z_][A-Za-z0-9_:]*", ty or "") if t in by_pretty]
    work = []
    for bp in sorted(ctx.engine.stat_bodies):
        b = F.bodies.get(bp)
        if b is not None:
            for l in b.locals:
                work += named(l.get("ty"))
    for crate in crates:      # ... and, before anything was traversed, whatever the property's crates mention
        work += [k for k in sorted((F.crates.get(crate) or {}).get("adts") or {}) if not ctx.engine.stat_bodies]
    reach = set()
    while work:
        k = work.pop()
        if k in reach or not (F.adts.get(k) or {}).get("local"):
            continue
        reach.add(k)
        for v in F.adts[k]["variants"]:
            for f in v["fields"]:
                work += named(f.get("ty"))
    for crate in [None]:
        for k in sorted(reach):
            a = F.adts.get(k)
            if not a or not a.get("local") or k in seen:
                continue
            seen.add(k)
            n_adt += 1
            site = (a.get("file") or "?", a.get("line") or 0, k)
            todo = [("container", k, a.get("attrs") or [], None, a.get("line"))]
            for v in a["variants"]:
                if a["kind"] == "enum":
                    todo.append(("variant", "%s::%s" % (k, v["name"]), v.get("attrs") or [], None, a.get("line")))
                for f in v["fields"]:
                    nm = "%s::%s.%s" % (k, v["name"], f["name"]) if a["kind"] == "enum" else "%s.%s" % (k, f["name"])
                    todo.append(("field", nm, f.get("attrs") or [], f.get("ty"), f.get("line") or a.get("line")))
            # a rename must not hand an item the wire name one of its siblings goes by (Execute renamed "close" and Close renamed
            # "execute": every handler is right and every caller reaches the other one)
            def _norm(x):
                return x.lower().replace("_", "").replace("-", "")
            groups_ = [[(v["name"], v.get("attrs") or []) for v in a["variants"]]] if a["kind"] == "enum" else []
            groups_ += [[(f["name"], f.get("attrs") or []) for f in v["fields"]] for v in a["variants"]]
            for grp in groups_:
                for nm_, attrs_ in grp:
                    for t in attrs_:
                        for k_, v_ in (_attr_items(t) or []):
                            if k_ == "rename" and v_ and v_.strip().startswith('"'):
                                new_ = v_.strip().strip('"')
                                clash = [o for o, _ in grp if o != nm_ and _norm(o) == _norm(new_)]
                                if clash:
                                    ctx.ob("CODEC", "rename %s::%s" % (k, nm_), False, sites=[site],
                                           detail="%s::%s is renamed %r on the wire, the name its sibling `%s` is known by" % (k, nm_, new_, clash[0]))
            for where, nm, attrs, fty, line in todo:
                items = []
                for t in attrs:
                    it = _attr_items(t)
                    if it:
                        items += it
                if not items:
                    continue
                n_attr += 1
                why = _codec_verdict(where, items, fty)
                dflt = dict(items).get("default")
                if why is None and where == "field" and dflt and (fty or "").startswith(("std::option::Option<", "core::option::Option<")):
                    # an optional field the sender left out is None to every handler - unless a default function says otherwise
                    fn_ = dflt.strip().strip('"').split("::")[-1]
                    cands = [b for pth, b in F.bodies.items() if pth.endswith("::" + fn_) and b.kind == "fn" and b.crate == k.split("::")[0]]
                    rets = None
                    if len(cands) == 1:
                        try:
                            rets = set(p_.ret for p_ in ctx.engine.summarise(cands[0]))
                        except Exception:
                            rets = None
                    from .engine import NONE as _NONE
                    if rets != {_NONE}:
                        why = "`default = %s`: an omitted optional field reads as %s, not as None" % (
                            dflt, ", ".join(show(r)[:60] for r in rets) if rets else "whatever that function returns (not analysable)")
                if why is not None:
                    ctx.ob("CODEC", "%s %s" % (where, nm), False, detail="%s carries serde %s" % (nm, why),
                           sites=[(a.get("file") or "?", line or 0, k)])
                elif where != "container":
                    kept.append("%s: %s" % (nm, ", ".join(x[0] for x in items)))
    hand = []
    for pth in sorted(F.bodies):
        m = _re.search(r"serde::(?:ser::)?Serialize for (.+?)>::|serde::(?:de::)?Deserialize(?:<[^>]*>)? for (.+?)>::", pth)
        if m and (m.group(1) or m.group(2)).split("<")[0] in seen:
            hand.append(pth)
    for pth in hand:
        ctx.ob("CODEC", "hand-written codec %s" % pth, None,
               detail="UNDECIDED: %s is written by hand; the summariser models (de)serialisation as the identity only for serde's derive" % pth)
    ctx.ob("CODEC", "workspace types examined", n_adt >= 1, detail="no workspace type found in the facts of %s" % (crates,),
           sample={"types": n_adt, "items with serde attributes": n_attr, "field / variant attributes accepted": kept[:8]})


def check_storage_namespaces(ctx, crates):
    ctx.rule_texts["STORAGE"] = ("every storage accessor a contract uses (its own consts and those it imports from another crate) has "
                                 "namespace literals that are pairwise distinct: two accessors on one namespace alias the same cells, so "
                                 "a write through one silently changes what the other reads")
    for crate in crates:
        used = storage_consts_used(ctx.engine, crate)
        seen = {}
        clash = []
        for dp, names in sorted(used.items()):
            # exception (one, with reason): accessors declared in a `migrations` module deliberately re-read the previous
            # format of the same cell (cw20-ics20 migrations::v1::CONFIG over "ics20_config")
            if "::migrations::" in item_name(ctx.engine, ("const", dp)):
                continue
            for n in names:
                if n in seen and seen[n] != dp:
                    clash.append("%r is the namespace of both %s and %s" % (n, item_name(ctx.engine, ("const", seen[n])), item_name(ctx.engine, ("const", dp))))
                seen.setdefault(n, dp)
        ctx.ob("STORAGE", "%s: storage namespaces pairwise distinct" % crate, not clash,
               detail="; ".join(clash), sample={"namespaces": sorted(seen)[:12]})
