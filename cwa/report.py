"""Obligation bookkeeping, evidence JSON, VIOLATION / KNOWN-FINDING lines, replay files."""
import json
import os
import time

from .engine import show

VERIF = os.path.dirname(os.path.dirname(os.path.abspath(__file__)))


class Ob(object):
    __slots__ = ("rule", "key", "status", "details", "sites", "n", "sample", "trivial")

    def __init__(self, rule, key):
        self.rule = rule
        self.key = key
        self.status = "discharged"
        self.details = []
        self.sites = []
        self.n = 0
        self.sample = None
        self.trivial = False


class Ctx(object):
    """one check run of one property"""

    def __init__(self, pid, facts, engine, tier, tree_hash):
        self.pid = pid
        self.facts = facts
        self.engine = engine
        self.tier = tier
        self.tree_hash = tree_hash
        self.obs = {}
        self.order = []
        self.rule_texts = {}
        self.assumptions = []
        self.not_decided = []
        self.analysed = []       # entry points / functions summarised
        self.counts = {}
        self.cache = {}
        self.t0 = time.time()

    # status: True = discharged, False = violated, None = undecided (fail closed)
    def ob(self, rule, key, ok, detail=None, sites=None, sample=None, trivial=False):
        k = (rule, key)
        o = self.obs.get(k)
        if o is None:
            o = Ob(rule, key)
            self.obs[k] = o
            self.order.append(k)
            o.trivial = trivial
        o.n += 1
        if not trivial:
            o.trivial = False
        if ok is True:
            if o.sample is None and sample is not None:
                o.sample = sample
        else:
            st = "violated" if ok is False else "undecided"
            if o.status == "discharged" or (o.status == "undecided" and st == "violated"):
                o.status = st
            if detail and len(o.details) < 6 and detail not in o.details:
                o.details.append(detail)
        for s in (sites or []):
            if s is not None and fmt_site(s) not in o.sites and len(o.sites) < 12:
                o.sites.append(fmt_site(s))
        return ok is True

    def floor(self, rule, what, count, minimum):
        """fail closed when a rule matches fewer instances than were confirmed by hand"""
        self.counts["%s:%s" % (rule, what)] = count
        return self.ob(rule, "floor:%s" % what, count >= minimum,
                       detail="%s matched %d instance(s) of %s, expected at least %d (anchor missing or rule blind)"
                              % (rule, count, what, minimum), trivial=True)

    def summarise(self, fn, **kw):
        ps = self.engine.summarise(fn, **kw)
        self.analysed.append({"fn": fn, "paths": len(ps), "ok_paths": sum(1 for p in ps if p.is_ok())})
        return ps


def fmt_site(s):
    if isinstance(s, str):
        return s
    return "%s:%s (%s)" % (s[0], s[1], s[2]) if len(s) > 2 else "%s:%s" % (s[0], s[1])


def load_known():
    fn = os.path.join(VERIF, "known_findings.json")
    if not os.path.exists(fn):
        return []
    with open(fn) as f:
        return json.load(f).get("findings", [])


def finish(ctx, level_text, seed=0):
    """writes evidence, prints verdict lines, returns exit code"""
    pid = ctx.pid
    ctx.rule_texts.setdefault("ENGINE", "the summariser has no blind spot on the functions this check traversed: no closure that (transitively) "
                                        "writes storage is handed to an external call the primitive table does not model, and no path cap was hit")
    for nm, clos in sorted(ctx.engine.blind):
        if clos.startswith("@"):
            ctx.ob("ENGINE", "storage accessed through unmodelled %s in %s" % (nm, clos[1:]), None,
                   detail="UNDECIDED: %s is called in %s; the primitive table cannot attribute this storage access to a cell, so "
                          "its effect is invisible to the rules (raw Storage::set/remove or an accessor kind the tables do not cover)"
                          % (nm, clos[1:]))
            continue
        ctx.ob("ENGINE", "effectful closure %s passed to unmodelled %s" % (clos, nm), None,
               detail="UNDECIDED: closure %s writes storage but is invoked by %s, which the primitive table does not model; its effects "
                      "are invisible to the rules" % (clos, nm))
    known = [k for k in load_known() if k.get("property") == pid and k.get("status", "known") == "known"]
    bad, knownhits = [], []
    for k in ctx.order:
        o = ctx.obs[k]
        if o.status == "discharged":
            continue
        hit = None
        for kf in known:
            if kf["rule"] == o.rule and kf["key"] == o.key:
                hit = kf
        if hit:
            knownhits.append((o, hit))
        else:
            bad.append(o)
    n_ob = len(ctx.order)
    n_dis = sum(1 for k in ctx.order if ctx.obs[k].status == "discharged")
    nontrivial = sum(1 for k in ctx.order if not ctx.obs[k].trivial)
    samples = []
    per_rule = {}
    # written-out obligations of this run: the property's own rules first, at most two per rule, then the generic ones
    for generic in (False, True):
        for k in ctx.order:
            o = ctx.obs[k]
            if (o.rule in ("STORAGE", "CODEC", "ENGINE", "is_admin")) != generic:
                continue
            if o.status == "discharged" and o.sample is not None and len(samples) < 12 and per_rule.get(o.rule, 0) < 2:
                per_rule[o.rule] = per_rule.get(o.rule, 0) + 1
                samples.append({"rule": o.rule, "obligation": o.key, "instances": o.n, "sites": o.sites[:4], "witness": o.sample})
    if not samples:
        for k in ctx.order[:3]:
            o = ctx.obs[k]
            samples.append({"rule": o.rule, "obligation": o.key, "instances": o.n, "status": o.status})
    evdir = os.environ.get("CW_EVIDENCE_DIR") or os.path.join(VERIF, "evidence")
    os.makedirs(evdir, exist_ok=True)
    replay_paths = []
    rdir = os.path.join(evdir, "replay", pid)
    if not bad and os.path.isdir(rdir):
        # a replay file left by an earlier run on a different tree says nothing about this one
        for f in os.listdir(rdir):
            os.remove(os.path.join(rdir, f))
        os.rmdir(rdir)
    if bad:
        os.makedirs(rdir, exist_ok=True)
        for f in os.listdir(rdir):
            os.remove(os.path.join(rdir, f))
        for i, o in enumerate(bad):
            rp = os.path.join(rdir, "%d.json" % i)
            with open(rp, "w") as f:
                json.dump({"property": pid, "rule": o.rule, "key": o.key, "status": o.status,
                           "details": o.details, "sites": o.sites, "tree_hash": ctx.tree_hash,
                           "rule_text": ctx.rule_texts.get(o.rule, "")}, f, indent=1)
            replay_paths.append(rp)
    wall = time.time() - ctx.t0
    ev = {
        "property_id": pid,
        "tier": ctx.tier,
        "seed": seed,
        "level": "other",
        "coverage": {
            "explanation": level_text,
            "obligations": n_ob,
            "discharged": n_dis,
            "evaluations": sum(ctx.obs[k].n for k in ctx.order),
            "distinct_nontrivial": nontrivial,
            "rule": "one obligation per (rule, handler/variant, effect or call-site instance) found in the current tree; "
                    "an obligation is non-trivial when it constrains at least one storage effect, emitted message, guard or "
                    "returned term (instance-count floors are counted as trivial); evaluations counts the path instances "
                    "examined for those obligations",
            "samples": samples,
            "exhaustive": True,
            "known_findings": [{"rule": o.rule, "key": o.key} for o, _ in knownhits],
            "violated": [{"rule": o.rule, "key": o.key, "status": o.status, "details": o.details[:3], "sites": o.sites[:6]} for o in bad],
            "functions_summarised": ctx.analysed,
            "bodies_analysed": len(ctx.engine.stat_bodies),
            "paths_enumerated": ctx.engine.stat_paths,
            "instance_counts": ctx.counts,
            "writers_of_tracked_items": ctx.cache.get("writers"),
            "rules": ctx.rule_texts,
            "reanchored_functions": [{"known_as": a, "found_at": b} for a, b in getattr(ctx.facts, "moved", [])],
            "not_decided": ctx.not_decided,
            "tree_hash": ctx.tree_hash,
            "checker_cmd": "./check %s --tier %s" % (pid, ctx.tier),
            "trusted_base": ["rustc nightly MIR (mir-opt-level=0)", "primitive tables in cwa/prims.py (A-PRIMS)",
                             "chain atomicity of a failed call (A-ATOMIC)"],
        },
        "assumptions": ctx.assumptions,
        "wall_s": round(wall, 3),
        "violations": len(bad),
    }
    with open(os.path.join(evdir, pid + ".json"), "w") as f:
        json.dump(ev, f, indent=1, default=str)
    print("%s: %d obligations (%d non-trivial), %d discharged, %d known finding(s), %d violated/undecided; "
          "%d functions summarised, %d paths; %.1fs" % (pid, n_ob, nontrivial, n_dis, len(knownhits), len(bad),
                                                       len(ctx.analysed), ctx.engine.stat_paths, wall))
    for o, kf in knownhits:
        print("KNOWN-FINDING: property=%s %s %s: %s" % (pid, o.rule, o.key, kf.get("what", "")))
    for o, rp in zip(bad, replay_paths):
        print("--- %s %s [%s] %s" % (pid, o.rule, o.status.upper(), o.key))
        print("    rule: %s" % ctx.rule_texts.get(o.rule, ""))
        for d in o.details:
            print("    " + d)
        for s in o.sites:
            print("    at " + s)
        print("VIOLATION property=%s replay=%s" % (pid, rp))
    return 1 if bad else 0
