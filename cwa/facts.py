"""Facts loader: bodies, ADTs, consts, CFG helpers (dominators, natural loops)."""
import json
import os
import re

WORKSPACE_CRATES = [
    "cw1", "cw20", "cw3", "cw4",
    "cw1_subkeys", "cw1_whitelist", "cw20_base", "cw20_ics20",
    "cw3_fixed_multisig", "cw3_flex_multisig", "cw4_group", "cw4_stake",
]


def _split_top(s, sep):
    """split s at top-level occurrences of sep (not inside <>, (), [])."""
    out, depth, cur, i = [], 0, "", 0
    while i < len(s):
        c = s[i]
        if c in "<([":
            depth += 1
        elif c in ">)]":
            if not (c == ">" and i > 0 and s[i - 1] == "-"):
                depth -= 1
        if depth == 0 and s.startswith(sep, i):
            out.append(cur)
            cur = ""
            i += len(sep)
            continue
        cur += c
        i += 1
    out.append(cur)
    return out


_norm_cache = {}


def strip_generics(p):
    """`cw_storage_plus::Map::<K, T>::update` -> `cw_storage_plus::Map::update`;
    `<cosmwasm_std::Uint128 as std::ops::AddAssign>::add_assign` keeps the qualified form with
    generics removed inside; lifetimes and `&` are dropped from the self type."""
    if p in _norm_cache:
        return _norm_cache[p]
    r = _strip(p)
    _norm_cache[p] = r
    return r


def _match_angle(s, i):
    """s[i] == '<' ; return index of matching '>'."""
    depth = 0
    j = i
    while j < len(s):
        c = s[j]
        if c == "<":
            depth += 1
        elif c == ">" and not (j > 0 and s[j - 1] == "-"):
            depth -= 1
            if depth == 0:
                return j
        j += 1
    return len(s) - 1


def _strip(p):
    p = p.strip()
    out = ""
    i = 0
    while i < len(p):
        c = p[i]
        if c == "<":
            j = _match_angle(p, i)
            inner = p[i + 1:j]
            at_start = (i == 0) or p[:i].endswith("::") and False
            if i == 0:
                # qualified path <T as Trait>::m  or <T>::m
                parts = _split_top(inner, " as ")
                parts = [_strip_ty(x) for x in parts]
                out += "<" + " as ".join(parts) + ">"
            elif p[:i].endswith("::") and inner.startswith("impl "):
                out += "<" + _strip_ty(inner) + ">"
            elif p[:i].endswith("::"):
                # turbofish: drop it together with the preceding '::'
                out = out[:-2]
            else:
                pass  # type arguments: drop
            i = j + 1
            continue
        out += c
        i += 1
    return out


def _strip_ty(t):
    t = t.strip()
    t = re.sub(r"'[a-z_]+\s*", "", t)
    if t.startswith("impl "):
        m = _split_top(t[5:], " for ")
        return "impl " + " for ".join(_strip_ty(x) for x in m)
    while t.startswith("&"):
        t = t[1:].strip()
        if t.startswith("mut "):
            t = t[4:].strip()
    if t.startswith("dyn "):
        t = t[4:].strip()
    # remove generic args
    out = ""
    i = 0
    while i < len(t):
        if t[i] == "<":
            j = _match_angle(t, i)
            if i == 0:
                out += "<" + " as ".join(_strip_ty(x) for x in _split_top(t[1:j], " as ")) + ">"
            i = j + 1
            continue
        out += t[i]
        i += 1
    return out


class Body:
    __slots__ = ("path", "kind", "parent", "file", "line", "argc", "locals", "blocks", "crate",
                 "pub", "generics", "_loops", "_succ", "_pt")

    def __init__(self, d, crate):
        self.path = d["path"]
        self.kind = d["kind"]
        self.parent = d.get("parent")
        self.file = d["file"]
        self.line = d["line"]
        self.argc = d["argc"]
        self.locals = d["locals"]
        self.blocks = d["blocks"]
        self.crate = crate
        self.pub = d.get("pub")
        self.generics = d.get("generics") or []
        self._loops = None
        self._succ = None

    # ---------------- CFG -----------------
    def succ(self):
        if self._succ is None:
            s = []
            for b in self.blocks:
                t = b["term"]
                k = t["t"]
                if b["cleanup"]:
                    s.append([])
                elif k in ("goto", "drop", "assert"):
                    s.append([t["target"]])
                elif k == "call":
                    s.append([t["target"]] if t["target"] is not None else [])
                elif k == "switch":
                    tg = [a[1] for a in t["arms"]] + [t["otherwise"]]
                    s.append(sorted(set(tg)))
                else:
                    s.append([])
            self._succ = s
        return self._succ

    def pure_tail(self, bb):
        """True when every path from bb to `return` consists of drop glue only (drops, gotos, drop-flag
        updates, discriminant reads of values being dropped): forking on a switch there cannot matter."""
        if not hasattr(self, "_pt"):
            self._pt = {}
        memo = self._pt
        if bb in memo:
            return memo[bb]
        memo[bb] = False  # cycle guard
        blk = self.blocks[bb]
        ok = True
        for st in blk["stmts"]:
            if st["s"] != "assign":
                ok = False
                break
            rv = st["rv"]
            if st["p"]["p"] or st["p"]["l"] == 0:
                ok = False
                break
            if rv["r"] == "discr":
                continue
            if rv["r"] == "use" and rv["o"].get("k") == "int":
                continue
            ok = False
            break
        if ok:
            t = blk["term"]
            k = t["t"]
            if k == "return":
                ok = True
            elif k in ("goto", "drop"):
                ok = self.pure_tail(t["target"])
            elif k == "switch":
                ok = all(self.pure_tail(x) for x in [a[1] for a in t["arms"]] + [t["otherwise"]]
                         if not (self.blocks[x]["term"]["t"] == "unreachable" and not self.blocks[x]["stmts"]))
            else:
                ok = False
        memo[bb] = ok
        return ok

    def loops(self):
        """natural loops: {head: {"blocks": set, "assigned": set(locals), "deref_assigned": [place]}}"""
        if self._loops is not None:
            return self._loops
        succ = self.succ()
        n = len(self.blocks)
        # iterative DFS for reachability + postorder
        order, seen = [], set()
        stack = [(0, iter(succ[0]))]
        seen.add(0)
        while stack:
            node, it = stack[-1]
            adv = False
            for nx in it:
                if nx not in seen:
                    seen.add(nx)
                    stack.append((nx, iter(succ[nx])))
                    adv = True
                    break
            if not adv:
                order.append(node)
                stack.pop()
        rpo = list(reversed(order))
        idx = {b: i for i, b in enumerate(rpo)}
        preds = {b: [] for b in rpo}
        for b in rpo:
            for s2 in succ[b]:
                if s2 in preds:
                    preds[s2].append(b)
        # dominators (Cooper-Harvey-Kennedy)
        idom = {rpo[0]: rpo[0]}
        changed = True
        while changed:
            changed = False
            for b in rpo[1:]:
                ps = [p for p in preds[b] if p in idom]
                if not ps:
                    continue
                new = ps[0]
                for p in ps[1:]:
                    a, c = p, new
                    while a != c:
                        while idx[a] > idx[c]:
                            a = idom[a]
                        while idx[c] > idx[a]:
                            c = idom[c]
                    new = a
                if idom.get(b) != new:
                    idom[b] = new
                    changed = True

        def dominates(a, b):
            while True:
                if a == b:
                    return True
                if b == idom.get(b, b):
                    return False
                b = idom[b]

        loops = {}
        for b in rpo:
            for s2 in succ[b]:
                if s2 in idx and dominates(s2, b):
                    # back edge b -> s2
                    body = loops.setdefault(s2, {"blocks": {s2}})["blocks"]
                    work = [b]
                    while work:
                        x = work.pop()
                        if x not in body:
                            body.add(x)
                            work.extend(preds[x])
        for head, info in loops.items():
            assigned, deref = set(), []
            for bi in info["blocks"]:
                blk = self.blocks[bi]
                for st in blk["stmts"]:
                    if st["s"] in ("assign", "setdiscr"):
                        pl = st["p"]
                        if "*" in pl["p"]:
                            deref.append(pl)
                        else:
                            assigned.add(pl["l"])
                        if st["s"] == "assign":
                            rv = st["rv"]
                            if rv["r"] == "ref" and rv["mut"]:
                                if "*" in rv["p"]["p"]:
                                    deref.append(rv["p"])
                                else:
                                    assigned.add(rv["p"]["l"])
                t = blk["term"]
                if t["t"] == "call":
                    pl = t["dest"]
                    if "*" in pl["p"]:
                        deref.append(pl)
                    else:
                        assigned.add(pl["l"])
            info["assigned"] = assigned
            info["deref_assigned"] = deref
        self._loops = loops
        return loops


class Facts:
    def __init__(self, facts_dir, crates=None):
        self.dir = facts_dir
        self.bodies = {}
        self.adts = {}
        self.crates = {}
        self.skipped = {}
        self.skipped_dp = set()       # def paths of macro-generated functions whose bodies were not exported
        for c in (crates or WORKSPACE_CRATES):
            fn = os.path.join(facts_dir, c + ".json")
            if not os.path.exists(fn):
                raise FileNotFoundError("facts file missing for crate %s: %s" % (c, fn))
            with open(fn) as f:
                d = json.load(f)
            self.crates[c] = d
            for b in d["bodies"]:
                self.bodies[b["path"]] = Body(b, c)
            for k, v in d["adts"].items():
                if v is not None and (k not in self.adts or v.get("local")):
                    self.adts[k] = v
            for sk in d["skipped"]:
                self.skipped[sk["path"]] = sk["why"]
                if sk.get("dp") and sk["why"] == "from_expansion":
                    self.skipped_dp.add(sk["dp"])
        self._const_cache = {}
        from .anchors import reanchor
        self.moved = reanchor(self)

    def body(self, path):
        return self.bodies.get(path)

    def adt(self, path):
        return self.adts.get(path)

    def variant_by_discr(self, adt_path, val):
        a = self.adts.get(adt_path)
        if not a:
            return None
        for v in a["variants"]:
            if v["discr"] is not None and str(v["discr"]) == str(val):
                return v["name"]
        return None

    def variants(self, adt_path):
        a = self.adts.get(adt_path)
        if not a:
            return None
        return [v["name"] for v in a["variants"]]

    def is_workspace_type(self, ty):
        """does the pretty type name a struct / enum defined in the analysed workspace?"""
        if not hasattr(self, "_ws_pretty"):
            self._ws_pretty = set()
            for k, a in self.adts.items():
                if a.get("local"):
                    q = strip_generics(a.get("pretty", k)).split("::")
                    self._ws_pretty.add((q[0], q[-1]))          # types print by their visible (re-exported) path
        q = strip_generics(ty).split("::")
        return (q[0], q[-1]) in self._ws_pretty

    def fn_bodies(self, crate=None):
        for p, b in self.bodies.items():
            if b.kind in ("fn", "closure") and (crate is None or b.crate == crate):
                yield b
