"""Trusted primitives: tabulated behaviour of external crates (A-PRIMS in DESIGN.md).

Every handler has the signature h(eng, st, name, args, site, depth, call) -> [(state, result_term)].
`args` are raw terms (references intact); handlers take `eng.val` when they need values.
"""
import re

from .engine import (CFLOW, ERR, FALSE, NONE, OK, OPTION, RESULT, SOME, TRUE, UNIT, Effect, contains_kind,
                     mkcmp, negate, variant, fold_bin)

from .facts import strip_generics
EXACT = {}
_REGEX = []


def prim(*names):
    def deco(f):
        for n in names:
            EXACT[n] = f
        return f
    return deco


def prim_re(pattern):
    def deco(f):
        _REGEX.append((re.compile(pattern), f))
        return f
    return deco


_lookup_cache = {}


def lookup(name, trait_name=None):
    key = (name, trait_name)
    if key in _lookup_cache:
        return _lookup_cache[key]
    h = EXACT.get(name)
    if h is None:
        for rx, f in _REGEX:
            if rx.search(name):
                h = f
                break
    if h is None and trait_name and trait_name != name:
        h = EXACT.get(trait_name)
        if h is None:
            for rx, f in _REGEX:
                if rx.search(trait_name):
                    h = f
                    break
    _lookup_cache[key] = h
    return h


def vals(eng, st, args):
    return tuple(eng.val(st, a) for a in args)


def one(st, t):
    return [(st, t)]


def opaque_call(eng, st, name, args, site, call):
    """unmodelled external call: pure opaque term; places reachable through `&mut` arguments are havoced"""
    vs = vals(eng, st, args)
    if call is not None:
        for a, ao in zip(args, call["args"]):
            if isinstance(a, tuple) and a and a[0] == "ref":
                # find the static type of the operand to see whether it is a mutable borrow
                pass
    res = ("call", name, vs)
    havoc_mut_args(eng, st, name, args, call)
    eng.note_blind(name, vs)
    return [(st, res)]


def havoc_mut_args(eng, st, name, args, call):
    if call is None:
        return
    body = eng.facts.bodies.get(st.stack[-1]) if st.stack else None
    if body is None:
        return
    for a, ao in zip(args, call["args"]):
        pl = ao.get("m") or ao.get("c")
        if pl is None or pl["p"]:
            continue
        ty = body.locals[pl["l"]]["ty"]
        if ty.startswith("&mut ") and "dyn cosmwasm_std::Storage" not in ty and a[0] == "ref":
            eng.write_loc(st, a[1], a[2], ("unknown", "havoc:" + name, st.fresh()))
            st.notes.append(("havoc", name, ty))


# --------------------------------------------------------------------------- identities / conversions
@prim("<std::string::String as std::ops::Deref>::deref", "<std::vec::Vec as std::ops::Deref>::deref",
      "<std::vec::Vec as std::ops::DerefMut>::deref_mut", "<cosmwasm_std::Binary as std::ops::Deref>::deref",
      "<T as std::convert::Into>::into", "std::convert::Into::into", "<T as std::convert::From>::from",
      "<T as std::string::ToString>::to_string", "std::string::ToString::to_string",
      "<cosmwasm_std::Addr as std::convert::AsRef>::as_ref", "std::convert::AsRef::as_ref",
      "cosmwasm_std::Addr::as_str", "cosmwasm_std::Addr::into_string", "cosmwasm_std::Addr::unchecked",
      "std::string::String::as_str", "std::str::<impl std::borrow::ToOwned for str>::to_owned",
      "std::borrow::ToOwned::to_owned", "std::option::Option::as_ref", "std::option::Option::as_mut",
      "std::option::Option::as_deref", "std::result::Result::as_ref",
      "std::option::Option::cloned", "std::option::Option::copied",
      "cosmwasm_std::DepsMut::branch", "cosmwasm_std::DepsMut::as_ref", "cosmwasm_std::Deps::as_ref",
      "std::hint::must_use", "std::boxed::Box::new", "std::convert::identity",
      "cosmwasm_std::Uint128::new", "cosmwasm_std::Uint128::u128", "cosmwasm_std::Uint64::new",
      "cosmwasm_std::Uint64::u64", "<cosmwasm_std::Uint64 as std::convert::From>::from",
      "<cosmwasm_std::Uint128 as std::convert::From>::from",
      "core::slice::<impl [T]>::iter", "<I as std::iter::IntoIterator>::into_iter",
      "<std::vec::Vec as std::iter::IntoIterator>::into_iter",
      "core::slice::iter::<impl std::iter::IntoIterator for [T]>::into_iter",
      "core::slice::iter::<impl std::iter::IntoIterator for &[T]>::into_iter",
      "std::iter::IntoIterator::into_iter", "std::vec::Vec::iter", "core::slice::<impl [T]>::iter_mut",
      "std::string::String::from", "<std::string::String as std::convert::From>::from",
      "std::vec::Vec::as_slice", "std::vec::Vec::as_mut_slice", "core::str::<impl str>::to_string", "std::string::String::into_bytes",
      "core::str::<impl str>::as_bytes", "std::string::String::as_bytes")
def p_identity(eng, st, name, args, site, depth, call):
    a = args[0]
    if name.endswith(("Into>::into", "Into::into", "From>::from", "From::from")):
        if call is not None and len(call.get("substs") or ()) == 2:
            # `impl<T> From<T> for Option<T>`: x.into() is Some(x)
            env = eng._tyenv.get(getattr(eng, "_cur_cfid", None)) or {}
            subs = [env.get(x.get("ty", ""), x.get("ty", "")) for x in call["substs"]]
            src, dst = (subs[0], subs[1]) if call.get("callee", "").endswith("Into::into") else (subs[1], subs[0])
            m = re.match(r"^(?:std|core)::option::Option<(.+)>$", dst)
            if m and m.group(1) == src:
                return one(st, SOME(eng.val(st, a)))
        impl = eng.workspace_from(st, a, call, name)
        if impl is not None and depth < eng.max_depth and impl.path not in st.stack:
            return eng.run_body(st, impl, [eng.val(st, a)], depth + 1, site)
    if name in ("std::option::Option::as_ref", "std::option::Option::as_mut", "std::result::Result::as_ref",
                "std::option::Option::as_deref") or "deref_mut" in name or name.endswith(("iter_mut", "as_mut_slice")):
        return one(st, a)      # keep the reference so that writes through it land on the place
    return one(st, eng.val(st, a))


@prim_re(r"ToOwned>::to_owned$|^<str as std::string::ToString>::to_string$|^<std::string::String as std::string::ToString>::to_string$")
def p_to_owned(eng, st, name, args, site, depth, call):
    return one(st, eng.val(st, args[0]))


@prim_re(r"^<.* as std::clone::Clone>::clone$")
def p_clone(eng, st, name, args, site, depth, call):
    return one(st, eng.val(st, args[0]))


@prim_re(r"^<.* as std::convert::(From|Into)>::(from|into)$")
def p_from(eng, st, name, args, site, depth, call):
    # lossless conversions compare equal to their argument; keep the target for enums built by From
    impl = eng.workspace_from(st, args[0], call)
    if impl is not None and depth < eng.max_depth and impl.path not in st.stack:
        return eng.run_body(st, impl, [eng.val(st, args[0])], depth + 1, site)
    v = eng.val(st, args[0])
    if name.startswith("<cw20::Balance as") or name.startswith("<cw20::balance::Balance as"):
        return one(st, ("call", name, (v,)))
    return one(st, v)


@prim_re(r"^std::convert::num::<impl std::convert::From(<[ui](8|16|32|64|128|size)>)? for [ui](8|16|32|64|128|size)>::from$")
def p_int_widen(eng, st, name, args, site, depth, call):
    return one(st, eng.val(st, args[0]))        # std implements From only for lossless integer conversions: the same number


@prim_re(r"(^|[ <])std::convert::TryInto(>|<.*>)?::try_into$|(^|[ <])std::convert::TryFrom(>|<.*>)?::try_from$")
def p_try_from(eng, st, name, args, site, depth, call):
    impl = eng.workspace_try_from(call)
    if impl is not None and depth < eng.max_depth and impl.path not in st.stack:
        return eng.run_body(st, impl, [eng.val(st, args[0])], depth + 1, site)
    return opaque_call(eng, st, name, args, site, call)


@prim("std::iter::once", "core::iter::once")
def p_once(eng, st, name, args, site, depth, call):
    return one(st, ("list", (eng.val(st, args[0]),)))       # the one-element sequence


@prim("std::iter::Iterator::collect")
def p_collect(eng, st, name, args, site, depth, call):
    # a literally known sequence collected into a Vec is that sequence (anything else stays the opaque `collect(..)`)
    v = eng.val(st, args[0])
    body = eng.facts.bodies.get(st.stack[-1]) if st.stack else None
    if v[0] == "list" and body is not None and call is not None and not call["dest"]["p"] \
            and strip_generics(body.locals[call["dest"]["l"]]["ty"]) in ("std::vec::Vec", "alloc::vec::Vec"):
        return one(st, v)
    return opaque_call(eng, st, name, args, site, call)


@prim("cosmwasm_std::coin", "cosmwasm_std::coins")
def p_coin(eng, st, name, args, site, depth, call):
    # coin(amount, denom) = Coin { denom: denom.into(), amount: Uint128::new(amount) }; coins(..) = vec![coin(..)]
    c = ("struct", "cosmwasm_std::coin::Coin", (("denom", eng.val(st, args[1])), ("amount", eng.val(st, args[0]))))
    return one(st, ("list", (c,)) if name.endswith("coins") else c)


@prim_re(r"^<.* as std::default::Default>::default$")
def p_default(eng, st, name, args, site, depth, call):
    m = re.match(r"^<(.*) as std::default::Default>::default$", name)
    ty = m.group(1)
    if ty in ("cosmwasm_std::Response", "cosmwasm_std::IbcBasicResponse"):
        return one(st, ("resp", ty.split("::")[-1], (), None))
    return one(st, ("default", ty))


@prim("std::default::Default::default")
def p_default2(eng, st, name, args, site, depth, call):
    return one(st, ("default", "?"))


# --------------------------------------------------------------------------- ? operator
@prim("<std::result::Result as std::ops::Try>::branch")
def p_branch_result(eng, st, name, args, site, depth, call):
    out = []
    for s, n, p in eng.force_enum(st, args[0], RESULT, site):
        if n == "Ok":
            out.append((s, variant(CFLOW, "Continue", (p[0],))))
        else:
            out.append((s, variant(CFLOW, "Break", (ERR(p[0]),))))
    return out


@prim("<std::option::Option as std::ops::Try>::branch")
def p_branch_option(eng, st, name, args, site, depth, call):
    out = []
    for s, n, p in eng.force_enum(st, args[0], OPTION, site):
        if n == "Some":
            out.append((s, variant(CFLOW, "Continue", (p[0],))))
        else:
            out.append((s, variant(CFLOW, "Break", (NONE,))))
    return out


@prim("<std::result::Result as std::ops::FromResidual>::from_residual",
      "<std::option::Option as std::ops::FromResidual>::from_residual")
def p_from_residual(eng, st, name, args, site, depth, call):
    r = eng.val(st, args[0])
    if r[0] == "variant":
        return one(st, r)
    return one(st, ("call", name, (r,)))


# --------------------------------------------------------------------------- Option / Result combinators
def _adt_of(name):
    return OPTION if "Option" in name.split("::")[-2] else RESULT


def _call_closure(eng, st, f, cargs, site, depth):
    return eng.call_value(st, f, cargs, site, depth)


@prim("std::option::Option::unwrap_or_default", "std::result::Result::unwrap_or_default")
def p_unwrap_or_default(eng, st, name, args, site, depth, call):
    v = eng.val(st, args[0])
    if v[0] == "variant":
        if v[2] in ("Some", "Ok"):
            return one(st, v[3][0][1])
        return one(st, ("default", "?"))
    r = st.refine.get(v)
    if r in ("Some", "Ok"):
        return one(st, ("vfield", v, r, "0"))
    if r in ("None", "Err"):
        return one(st, ("default", "?"))
    return one(st, ("unwrap_or", v, ("default", "?")))


@prim("std::option::Option::unwrap_or", "std::result::Result::unwrap_or")
def p_unwrap_or(eng, st, name, args, site, depth, call):
    v = eng.val(st, args[0])
    d = eng.val(st, args[1])
    if v[0] == "variant":
        if v[2] in ("Some", "Ok"):
            return one(st, v[3][0][1])
        return one(st, d)
    r = st.refine.get(v)
    if r in ("Some", "Ok"):
        return one(st, ("vfield", v, r, "0"))
    if r in ("None", "Err"):
        return one(st, d)
    return one(st, ("unwrap_or", v, d))


@prim("std::option::Option::unwrap", "std::option::Option::expect", "std::result::Result::unwrap",
      "std::result::Result::expect")
def p_unwrap(eng, st, name, args, site, depth, call):
    adt = _adt_of(name)
    good = "Some" if adt == OPTION else "Ok"
    out = []
    for s, n, p in eng.force_enum(st, args[0], adt, site, only=(good,)):
        out.append((s, p[0]))   # the other variant panics: the transaction aborts (A-ATOMIC)
    return out


@prim("std::option::Option::is_some", "std::option::Option::is_none", "std::result::Result::is_ok",
      "std::result::Result::is_err")
def p_is(eng, st, name, args, site, depth, call):
    adt = _adt_of(name)
    what = name.split("::")[-1]
    want = {"is_some": "Some", "is_none": "None", "is_ok": "Ok", "is_err": "Err"}[what]
    v = eng.val(st, args[0])
    if v[0] == "variant":
        return one(st, TRUE if v[2] == want else FALSE)
    r = st.refine.get(v)
    if r is not None:
        return one(st, TRUE if r == want else FALSE)
    pos = "Some" if adt == OPTION else "Ok"
    t = ("is", v, pos)
    return one(st, t if want == pos else negate(t))


@prim("std::option::Option::ok_or", "std::option::Option::ok_or_else")
def p_ok_or(eng, st, name, args, site, depth, call):
    out = []
    for s, n, p in eng.force_enum(st, args[0], OPTION, site):
        if n == "Some":
            out.append((s, OK(p[0])))
        elif name.endswith("ok_or"):
            out.append((s, ERR(eng.val(s, args[1]))))
        else:
            for s2, r in _call_closure(eng, s, args[1], [], site, depth):
                out.append((s2, ERR(r)))
    return out


@prim("std::result::Result::ok")
def p_ok(eng, st, name, args, site, depth, call):
    out = []
    for s, n, p in eng.force_enum(st, args[0], RESULT, site):
        out.append((s, SOME(p[0]) if n == "Ok" else NONE))
    return out


@prim("std::option::Option::map", "std::result::Result::map")
def p_map(eng, st, name, args, site, depth, call):
    adt = _adt_of(name)
    out = []
    for s, n, p in eng.force_enum(st, args[0], adt, site):
        if n in ("Some", "Ok"):
            for s2, r in _call_closure(eng, s, args[1], [p[0]], site, depth):
                out.append((s2, SOME(r) if adt == OPTION else OK(r)))
        elif n == "None":
            out.append((s, NONE))
        else:
            out.append((s, ERR(p[0])))
    return out


@prim("std::result::Result::map_err")
def p_map_err(eng, st, name, args, site, depth, call):
    out = []
    for s, n, p in eng.force_enum(st, args[0], RESULT, site):
        if n == "Ok":
            out.append((s, OK(p[0])))
        else:
            for s2, r in _call_closure(eng, s, args[1], [p[0]], site, depth):
                out.append((s2, ERR(r)))
    return out


@prim("std::option::Option::and_then", "std::result::Result::and_then")
def p_and_then(eng, st, name, args, site, depth, call):
    adt = _adt_of(name)
    out = []
    for s, n, p in eng.force_enum(st, args[0], adt, site):
        if n in ("Some", "Ok"):
            out.extend(_call_closure(eng, s, args[1], [p[0]], site, depth))
        elif n == "None":
            out.append((s, NONE))
        else:
            out.append((s, ERR(p[0])))
    return out


@prim("std::result::Result::or_else", "std::option::Option::or_else")
def p_or_else(eng, st, name, args, site, depth, call):
    adt = _adt_of(name)
    out = []
    for s, n, p in eng.force_enum(st, args[0], adt, site):
        if n in ("Some", "Ok"):
            out.append((s, SOME(p[0]) if adt == OPTION else OK(p[0])))
        else:
            out.extend(_call_closure(eng, s, args[1], [] if adt == OPTION else [p[0]], site, depth))
    return out


@prim("std::result::Result::or", "std::option::Option::or")
def p_or(eng, st, name, args, site, depth, call):
    adt = _adt_of(name)
    out = []
    for s, n, p in eng.force_enum(st, args[0], adt, site):
        if n in ("Some", "Ok"):
            out.append((s, SOME(p[0]) if adt == OPTION else OK(p[0])))
        else:
            out.append((s, eng.val(s, args[1])))
    return out


@prim("std::option::Option::unwrap_or_else", "std::result::Result::unwrap_or_else")
def p_unwrap_or_else(eng, st, name, args, site, depth, call):
    adt = _adt_of(name)
    out = []
    for s, n, p in eng.force_enum(st, args[0], adt, site):
        if n in ("Some", "Ok"):
            out.append((s, p[0]))
        else:
            out.extend(_call_closure(eng, s, args[1], [] if adt == OPTION else [p[0]], site, depth))
    return out


@prim("std::option::Option::map_or", "std::option::Option::map_or_else")
def p_map_or(eng, st, name, args, site, depth, call):
    out = []
    for s, n, p in eng.force_enum(st, args[0], OPTION, site):
        if n == "Some":
            out.extend(_call_closure(eng, s, args[2], [p[0]], site, depth))
        elif name.endswith("map_or"):
            out.append((s, eng.val(s, args[1])))
        else:
            out.extend(_call_closure(eng, s, args[1], [], site, depth))
    return out


@prim("std::option::Option::transpose")
def p_transpose(eng, st, name, args, site, depth, call):
    out = []
    for s, n, p in eng.force_enum(st, args[0], OPTION, site):
        if n == "None":
            out.append((s, OK(NONE)))
        else:
            for s2, n2, p2 in eng.force_enum(s, p[0], RESULT, site):
                out.append((s2, OK(SOME(p2[0])) if n2 == "Ok" else ERR(p2[0])))
    return out


@prim("std::option::Option::filter")
def p_filter(eng, st, name, args, site, depth, call):
    out = []
    for s, n, p in eng.force_enum(st, args[0], OPTION, site):
        if n == "None":
            out.append((s, NONE))
        else:
            # the closure takes a reference to the payload
            for s2, r in _call_closure(eng, s, args[1], [p[0]], site, depth):
                for s3, b in eng.force_bool(s2, r, site):
                    out.append((s3, SOME(p[0]) if b else NONE))
    return out


@prim("std::option::Option::take")
def p_take_opt(eng, st, name, args, site, depth, call):
    a = args[0]
    v = eng.val(st, a)
    if a[0] == "ref":
        eng.write_loc(st, a[1], a[2], NONE)
    return one(st, v)


@prim("std::option::Option::replace", "std::option::Option::insert")
def p_replace_opt(eng, st, name, args, site, depth, call):
    # replace(&mut self, v) -> old value, self = Some(v); insert(&mut self, v) -> &mut v, self = Some(v)
    a = args[0]
    old = eng.val(st, a)
    new = eng.val(st, args[1])
    if a[0] == "ref":
        eng.write_loc(st, a[1], a[2], SOME(new))
    return one(st, old if name.endswith("replace") else new)


@prim("std::option::Option::xor")
def p_xor_opt(eng, st, name, args, site, depth, call):
    # a.xor(b): Some exactly when one of the two is
    a, b = eng.val(st, args[0]), eng.val(st, args[1])
    out = []
    for s1, n1, p1 in eng.force_enum(st, a, OPTION, site):
        for s2, n2, p2 in eng.force_enum(s1, b, OPTION, site):
            if n1 == "Some" and n2 == "None":
                out.append((s2, SOME(p1[0])))
            elif n1 == "None" and n2 == "Some":
                out.append((s2, SOME(p2[0])))
            else:
                out.append((s2, NONE))
    return out


@prim_re(r"(^|[ <])std::iter::Iterator(>|<.*>)?::take_while$")
def p_take_while(eng, st, name, args, site, depth, call):
    # a predicate that never looks at the element (`take_while(|_| flag)`) lets everything or nothing through
    clos = args[1]
    craw = clos
    n_ = 0
    while isinstance(craw, tuple) and craw and craw[0] == "ref" and n_ < 8:
        craw = eng.read_loc(st, craw[1], craw[2])
        n_ += 1
    b_ = eng.by_dp.get(craw[1]) if isinstance(craw, tuple) and craw and craw[0] == "closure" else None
    if b_ is not None and b_.argc >= 2 and not _local_used(b_, 2) and not eng.body_has_effects(craw[1]):
        out = []
        for s2, r in eng.call_value(st, clos, [("unknown", "unused-element")], site, depth):
            for s3, v in eng.force_bool(s2, r, site):
                out.append((s3, eng.val(s3, args[0]) if v else ("list", ())))
        return out
    return opaque_call(eng, st, name, args, site, call)


@prim("std::mem::swap")
def p_mem_swap(eng, st, name, args, site, depth, call):
    a, b = args[0], args[1]
    va, vb = eng.val(st, a), eng.val(st, b)
    if a[0] == "ref" and b[0] == "ref":
        eng.write_loc(st, a[1], a[2], vb)
        eng.write_loc(st, b[1], b[2], va)
        return one(st, UNIT)
    return opaque_call(eng, st, name, args, site, call)


# --------------------------------------------------------------------------- comparisons
@prim_re(r"(^|::|>::)(eq|ne|lt|le|gt|ge)$")
def p_cmp(eng, st, name, args, site, depth, call):
    op = name.split("::")[-1]
    if len(args) != 2 or not ("PartialEq" in name or "PartialOrd" in name or "cmp::impls" in name
                              or "impl std::cmp" in name):
        return opaque_call(eng, st, name, args, site, call)
    a, b = vals(eng, st, args)
    if op in ("lt", "le", "gt", "ge") and a[0] == "variant" and b[0] == "variant" and a[1] == b[1] and not a[3] and not b[3]:
        # field-less variants of an enum whose PartialOrd is derived (its body is a skipped derive expansion, not hand-written
        # code): the order is the declaration order, i.e. the order of the discriminants
        adt = eng.facts.adt(a[1])
        pretty = (adt or {}).get("pretty", a[1])
        if adt and eng.facts.skipped.get("<%s as std::cmp::PartialOrd>::partial_cmp" % pretty) == "from_expansion":
            d = {v["name"]: int(v["discr"]) for v in adt["variants"] if v["discr"] is not None}
            if a[2] in d and b[2] in d:
                x, y = d[a[2]], d[b[2]]
                r = {"lt": x < y, "le": x <= y, "gt": x > y, "ge": x >= y}[op]
                return one(st, TRUE if r else FALSE)
    if op == "eq":
        return one(st, mkcmp("eq", a, b))
    if op == "ne":
        return one(st, negate(mkcmp("eq", a, b)))
    if op == "lt":
        return one(st, mkcmp("lt", a, b))
    if op == "le":
        return one(st, mkcmp("le", a, b))
    if op == "gt":
        return one(st, mkcmp("lt", b, a))
    return one(st, mkcmp("le", b, a))


@prim("std::cmp::Ord::min", "std::cmp::min")
def p_min(eng, st, name, args, site, depth, call):
    a, b = vals(eng, st, args)
    return one(st, ("call", "min", (a, b)))


@prim("std::cmp::Ord::max", "std::cmp::max")
def p_max(eng, st, name, args, site, depth, call):
    a, b = vals(eng, st, args)
    return one(st, ("call", "max", (a, b)))


# --------------------------------------------------------------------------- arithmetic on cosmwasm numbers
_NUM = r"cosmwasm_std::(Uint128|Uint64|Uint256|Decimal|Uint512|Int128)"


@prim_re(r"^<" + _NUM + r" as std::ops::(Add|Sub|Mul|Div)>::(add|sub|mul|div)$")
def p_num_op(eng, st, name, args, site, depth, call):
    op = name.split("::")[-1]
    a, b = vals(eng, st, args)
    return one(st, ("bin", op, a, b))      # panics on overflow: exact


@prim_re(r"^<" + _NUM + r" as std::ops::(AddAssign|SubAssign|MulAssign)>::(add_assign|sub_assign|mul_assign)$")
def p_num_assign(eng, st, name, args, site, depth, call):
    op = name.split("::")[-1].split("_")[0]
    a = args[0]
    b = eng.val(st, args[1])
    cur = eng.val(st, a)
    new = ("bin", op, cur, b)
    if a[0] == "ref":
        eng.write_loc(st, a[1], a[2], new)
    else:
        st.notes.append(("lost-assign", name))
    return one(st, UNIT)


@prim("cosmwasm_std::Uint128::zero", "cosmwasm_std::Uint64::zero", "cosmwasm_std::Decimal::zero")
def p_zero(eng, st, name, args, site, depth, call):
    return one(st, ("lit", 0))


@prim("cosmwasm_std::Uint128::is_zero", "cosmwasm_std::Uint64::is_zero", "cosmwasm_std::Decimal::is_zero")
def p_is_zero(eng, st, name, args, site, depth, call):
    return one(st, mkcmp("eq", eng.val(st, args[0]), ("lit", 0)))


# --------------------------------------------------------------------------- storage (cw-storage-plus)
_SP = r"^cw_storage_plus::(Item|Map|SnapshotMap|SnapshotItem|IndexedMap|Prefix)::"


def _item(eng, st, a):
    v = eng.val(st, a)
    return v


CURRENT_ENGINE = None       # set by Engine.__init__: where fail-closed notes of the primitive table go


def _creating_literal(e):
    """A struct literal that copies some fields from an entry stored under ANOTHER key of the same map (`Proposal { title:
    old.title, .., status: Open }` saved under a fresh id) is canonicalised by the engine like `S { changed, ..old }`; written to a
    different key it is not an update of `old` but a new entry: give it back its literal form, unchanged fields spelled `old.f`."""
    v = e.value
    fields = {}
    base = v
    while base[0] == "update":
        for n, x in base[2]:
            fields.setdefault(n, x)
        base = base[1]
    b = base
    if b[0] == "vfield" and b[2] == "Some" and b[1][0] == "vfield":
        b = b[1]
    if not (b[0] == "vfield" and b[2] == "Ok" and b[1][0] in ("load", "may_load") and b[1][1] == e.item and b[1][2] != e.key):
        return v
    adt = CURRENT_ENGINE.item_value_adt(e.item)
    a = CURRENT_ENGINE.facts.adt(adt) if adt else None
    if not a or len(a["variants"]) != 1:
        return v
    names = [f["name"] for f in a["variants"][0]["fields"]]
    return ("struct", adt, tuple((n, fields.get(n, ("field", base, n))) for n in names))


def _eff(st, kind, **kw):
    e = Effect(kind, loops=st.loopstack, stack=st.stack, **kw)
    if kind == "write" and CURRENT_ENGINE is not None and isinstance(e.value, tuple) and e.value and e.value[0] == "update":
        e.value = _creating_literal(e)
    if kind == "write" and isinstance(e.item, tuple) and e.item and e.item[0] == "submap" and CURRENT_ENGINE is not None:
        # writing a snapshot container's history map directly rewrites the past: no rule attributes that to the container
        CURRENT_ENGINE.blind.add(("write through %s" % e.item[2], "@" + (e.site[2] if e.site and len(e.site) > 2 else "?")))
    if kind in ("write", "read"):
        e.ver = st.wver.get(e.item, 0)
    if kind == "write" and e.old is None and e.op in ("save", "remove"):
        # read-modify-write spelled out: a read of the same cell earlier on this path with no write to the item in
        # between.  `old` is then the term that read produced (what Map::update / Item::update hand to their closure).
        for r in reversed(st.effects):
            if r.kind == "write" and r.item == e.item:
                break
            if r.kind == "read" and r.item == e.item and r.key == e.key and r.ver == e.ver and r.op in ("load", "may_load"):
                e.old = ("vfield", (r.op, e.item, e.key, e.ver), "Ok", "0")
                e.rd = r
                break
    st.effects.append(e)
    return e


def is_rmw_in_place(e):
    """is_rmw and the read sits in the same loop iteration as the write (nothing cached across iterations)"""
    return is_rmw(e) and e.rd is not None and e.rd.loops == e.loops


def is_rmw(e):
    """write whose new content was computed after reading the same cell with no intervening write to the item:
    Map::update / Item::update, or the same thing spelled load/may_load .. save/remove.  Not one: an `update` whose closure
    ignores the value it is handed, and a write inside a loop whose read sits outside that loop - from the second iteration
    on, the write of the iteration before lies between them (the 0/1-iteration summary cannot see that in the terms)."""
    if e.kind != "write" or getattr(e, "ignores_old", False):
        return False
    if e.op != "update" and e.old is None:
        return False
    rd = getattr(e, "rd", None)
    if rd is not None and e.loops and tuple(rd.loops or ())[:len(e.loops)] != tuple(e.loops):
        return False
    return True


def _ver(st, item):
    return st.wver.get(item, 0)


def _bump(st, item):
    st.wver[item] = st.wver.get(item, 0) + 1


@prim_re(_SP + r"new$")
def p_sp_new(eng, st, name, args, site, depth, call):
    return one(st, ("call", name, vals(eng, st, args)))


@prim_re(r"^cw_storage_plus::(Item|SnapshotItem)::(load|may_load)$")
def p_item_load(eng, st, name, args, site, depth, call):
    item = _item(eng, st, args[0])
    op = name.split("::")[-1]
    _eff(st, "read", item=item, key=UNIT, op=op, site=site)
    return one(st, (op, item, UNIT, _ver(st, item)))


@prim_re(r"^cw_storage_plus::(Map|SnapshotMap)::(load|may_load)$")
def p_map_load(eng, st, name, args, site, depth, call):
    item = _item(eng, st, args[0])
    key = eng.val(st, args[2])
    op = name.split("::")[-1]
    _eff(st, "read", item=item, key=key, op=op, site=site)
    return one(st, (op, item, key, _ver(st, item)))


@prim("cw_storage_plus::Map::has", "cw_storage_plus::SnapshotMap::has")
def p_map_has(eng, st, name, args, site, depth, call):
    item = _item(eng, st, args[0])
    key = eng.val(st, args[2])
    _eff(st, "read", item=item, key=key, op="has", site=site)
    return one(st, ("has", item, key, _ver(st, item)))


@prim("cw_storage_plus::Item::exists")
def p_item_exists(eng, st, name, args, site, depth, call):
    item = _item(eng, st, args[0])
    _eff(st, "read", item=item, key=UNIT, op="has", site=site)
    return one(st, ("has", item, UNIT, _ver(st, item)))


@prim("cw_storage_plus::Item::save")
def p_item_save(eng, st, name, args, site, depth, call):
    item = _item(eng, st, args[0])
    v = eng.val(st, args[2])
    _eff(st, "write", item=item, key=UNIT, op="save", value=v, site=site)
    _bump(st, item)
    return one(st, OK(UNIT))


@prim("cw_storage_plus::SnapshotItem::save")
def p_sitem_save(eng, st, name, args, site, depth, call):
    item = _item(eng, st, args[0])
    v = eng.val(st, args[2])
    h = eng.val(st, args[3])
    _eff(st, "write", item=item, key=UNIT, op="save", value=v, extra=h, site=site)
    _bump(st, item)
    return one(st, OK(UNIT))


@prim("cw_storage_plus::Map::save")
def p_map_save(eng, st, name, args, site, depth, call):
    item = _item(eng, st, args[0])
    key = eng.val(st, args[2])
    v = eng.val(st, args[3])
    _eff(st, "write", item=item, key=key, op="save", value=v, site=site)
    _bump(st, item)
    return one(st, OK(UNIT))


@prim("cw_storage_plus::SnapshotMap::save")
def p_smap_save(eng, st, name, args, site, depth, call):
    item = _item(eng, st, args[0])
    key = eng.val(st, args[2])
    v = eng.val(st, args[3])
    h = eng.val(st, args[4])
    _eff(st, "write", item=item, key=key, op="save", value=v, extra=h, site=site)
    _bump(st, item)
    return one(st, OK(UNIT))


@prim("cw_storage_plus::Item::remove")
def p_item_remove(eng, st, name, args, site, depth, call):
    item = _item(eng, st, args[0])
    _eff(st, "write", item=item, key=UNIT, op="remove", site=site)
    _bump(st, item)
    return one(st, UNIT)


@prim("cw_storage_plus::Map::remove")
def p_map_remove(eng, st, name, args, site, depth, call):
    item = _item(eng, st, args[0])
    key = eng.val(st, args[2])
    _eff(st, "write", item=item, key=key, op="remove", site=site)
    _bump(st, item)
    return one(st, UNIT)


@prim("cw_storage_plus::SnapshotMap::remove")
def p_smap_remove(eng, st, name, args, site, depth, call):
    item = _item(eng, st, args[0])
    key = eng.val(st, args[2])
    h = eng.val(st, args[3])
    _eff(st, "write", item=item, key=key, op="remove", extra=h, site=site)
    _bump(st, item)
    return one(st, OK(UNIT))


_USED_CACHE = {}


def _local_used(body, local):
    """does any statement or terminator of the MIR body mention local `local` (a closure parameter)?"""
    import json as _json
    key = (body.path, local)
    c = _USED_CACHE
    if key not in c:
        pat1, pat2 = '"l": %d,' % local, '"l": %d}' % local
        used = False
        for blk in body.blocks:
            for part in list(blk["stmts"]) + [blk.get("term") or {}]:
                if part.get("t") == "drop":
                    continue        # dropping an unused parameter is not looking at it
                txt = _json.dumps(part)
                if pat1 in txt or pat2 in txt:
                    used = True
        c[key] = used
    return c[key]


def _do_update(eng, st, item, key, closure, height, site, depth, is_item):
    """update(k, f): read, apply f, write iff Ok, return the new value"""
    ver = _ver(st, item)
    rd = _eff(st, "read", item=item, key=key, op="update", site=site)
    out = []
    if is_item:
        # Item::update loads (fails when absent) and passes T
        ld = ("load", item, key, ver)
        starts = []
        for s, n, p in eng.force_enum(st, ld, RESULT, site):
            if n == "Ok":
                starts.append((s, p[0]))
            else:
                out.append((s, ERR(p[0])))
    else:
        # Path::update is `may_load(store)? -> action -> save`: hand the closure the very term an explicit
        # `may_load(..)?` yields, so that the folded and the unfolded spelling summarise identically
        starts = [(st, ("vfield", ("may_load", item, key, ver), "Ok", "0"))]
    for s, old in starts:
        # does the closure look at what it is handed?  (a scratch run with a marker in its place; `update(k, |_| cached..)`
        # overwrites the cell with something computed from an older read)
        craw = closure
        n_ = 0
        while isinstance(craw, tuple) and craw and craw[0] == "ref" and n_ < 8:
            craw = eng.read_loc(s, craw[1], craw[2])
            n_ += 1
        b_ = eng.by_dp.get(craw[1]) if isinstance(craw, tuple) and craw and craw[0] == "closure" else None
        ignores = b_ is not None and b_.argc >= 2 and not _local_used(b_, 2)
        for s2, r in eng.call_value(s, closure, [old], site, depth):
            for s3, n, p in eng.force_enum(s2, r, RESULT, site):
                if n == "Ok":
                    newv = eng.val(s3, p[0])
                    w = _eff(s3, "write", item=item, key=key, op="update", value=newv, old=old, extra=height, site=site)
                    w.rd = rd
                    w.ignores_old = ignores
                    _bump(s3, item)
                    out.append((s3, OK(newv)))
                else:
                    out.append((s3, ERR(p[0])))
    return out


@prim("cw_storage_plus::Item::update")
def p_item_update(eng, st, name, args, site, depth, call):
    item = _item(eng, st, args[0])
    return _do_update(eng, st, item, UNIT, args[2], None, site, depth, True)


@prim("cw_storage_plus::Map::update")
def p_map_update(eng, st, name, args, site, depth, call):
    item = _item(eng, st, args[0])
    key = eng.val(st, args[2])
    return _do_update(eng, st, item, key, args[3], None, site, depth, False)


@prim("cw_storage_plus::SnapshotMap::update")
def p_smap_update(eng, st, name, args, site, depth, call):
    item = _item(eng, st, args[0])
    key = eng.val(st, args[2])
    h = eng.val(st, args[3])
    return _do_update(eng, st, item, key, args[4], h, site, depth, False)


@prim("cw_storage_plus::SnapshotItem::update")
def p_sitem_update(eng, st, name, args, site, depth, call):
    item = _item(eng, st, args[0])
    h = eng.val(st, args[2])
    # unlike Item::update, SnapshotItem::update is may_load -> action(Option<T>) -> save (cw-storage-plus 2.0 snapshot/item.rs)
    return _do_update(eng, st, item, UNIT, args[3], h, site, depth, False)


@prim_re(r"^cw_storage_plus::(SnapshotMap|SnapshotItem)::may_load_at_height$")
def p_at_height(eng, st, name, args, site, depth, call):
    item = _item(eng, st, args[0])
    if "SnapshotMap" in name:
        key = eng.val(st, args[2])
        h = eng.val(st, args[3])
    else:
        key = UNIT
        h = eng.val(st, args[2])
    _eff(st, "read", item=item, key=key, op="may_load_at_height", extra=h, site=site)
    return one(st, ("call", "may_load_at_height", (item, key, h)))


@prim_re(_SP + r"(range|range_raw|keys|keys_raw|prefix|sub_prefix|query|is_empty|first|last)$")
def p_sp_iter(eng, st, name, args, site, depth, call):
    vs = list(vals(eng, st, args))
    item = vs[0]
    op = name.split("::")[-1]
    # drop the storage / querier handle (args[1]) from the term except for prefix/sub_prefix
    if op in ("prefix", "sub_prefix"):
        rest = vs[1:]
    else:
        rest = vs[2:]
        base = item
        while isinstance(base, tuple) and base[0] == "call" and base[2]:
            base = base[2][0]
        _eff(st, "read", item=base, key=("range",), op=op, site=site)
    short = name.split("::")[-2] + "::" + op
    return one(st, ("call", short, (item,) + tuple(rest)))


# --------------------------------------------------------------------------- Map::key(k) -> Path: the same cell, addressed once
@prim("cw_storage_plus::Map::key", "cw_storage_plus::SnapshotMap::key")
def p_map_key(eng, st, name, args, site, depth, call):
    # SnapshotMap::key is the Path of the primary map: reads see the live value; a write through it records no
    # changelog entry - it appears as a write without height, which the snapshot rules reject
    return one(st, ("path", _item(eng, st, args[0]), eng.val(st, args[1])))


def _path(eng, st, a):
    v = eng.val(st, a)
    if v[0] == "path":
        return v[1], v[2]
    return None, None


@prim_re(r"^cw_storage_plus::Path::(load|may_load)$")
def p_path_load(eng, st, name, args, site, depth, call):
    item, key = _path(eng, st, args[0])
    if item is None:
        return _blind_storage(eng, st, name, args, site, call)
    op = name.split("::")[-1]
    _eff(st, "read", item=item, key=key, op=op, site=site)
    return one(st, (op, item, key, _ver(st, item)))


@prim("cw_storage_plus::Path::has")
def p_path_has(eng, st, name, args, site, depth, call):
    item, key = _path(eng, st, args[0])
    if item is None:
        return _blind_storage(eng, st, name, args, site, call)
    _eff(st, "read", item=item, key=key, op="has", site=site)
    return one(st, ("has", item, key, _ver(st, item)))


@prim("cw_storage_plus::Path::save")
def p_path_save(eng, st, name, args, site, depth, call):
    item, key = _path(eng, st, args[0])
    if item is None:
        return _blind_storage(eng, st, name, args, site, call)
    v = eng.val(st, args[2])
    _eff(st, "write", item=item, key=key, op="save", value=v, site=site)
    _bump(st, item)
    return one(st, OK(UNIT))


@prim("cw_storage_plus::Path::remove")
def p_path_remove(eng, st, name, args, site, depth, call):
    item, key = _path(eng, st, args[0])
    if item is None:
        return _blind_storage(eng, st, name, args, site, call)
    _eff(st, "write", item=item, key=key, op="remove", site=site)
    _bump(st, item)
    return one(st, UNIT)


@prim("cw_storage_plus::Path::update")
def p_path_update(eng, st, name, args, site, depth, call):
    item, key = _path(eng, st, args[0])
    if item is None:
        return _blind_storage(eng, st, name, args, site, call)
    return _do_update(eng, st, item, key, args[2], None, site, depth, False)


def _blind_storage(eng, st, name, args, site, call):
    """a storage accessor the tables cannot attribute to a cell: fail closed (ENGINE obligation), never silently pure"""
    eng.blind.add((name, "@" + (site[2] if site and len(site) > 2 else "?")))
    return opaque_call(eng, st, name, args, site, call)


@prim_re(r"(^|<dyn |::)cosmwasm_std::(traits::)?Storage( as [^>]*)?>?::(set|remove)$|^cosmwasm_std::Storage::(set|remove)$")
def p_raw_storage_write(eng, st, name, args, site, depth, call):
    """a raw key/value write bypasses every typed accessor: no rule can attribute it to a cell - fail closed"""
    return _blind_storage(eng, st, name, args, site, call)


_SP_PURE = re.compile(r"^cw_storage_plus::(Bound|PrefixBound|Bounder|RawBound|Endian|int_key|keys|de|helpers::(namespaces_with_key|nested_namespaces_with_key|encode_length))")


@prim_re(r"^(<)?cw_storage_plus::")
def p_sp_other(eng, st, name, args, site, depth, call):
    if name.endswith("SnapshotMap::changelog") and args:
        # the history map of a snapshot container, as a handle: reading it (a history query) is attributed to that sub-map;
        # writing it fails closed in _eff
        return one(st, ("submap", _item(eng, st, args[0]), "SnapshotMap::changelog"))
    if _SP_PURE.search(name.lstrip("<")) or name.endswith(("::new", "::new_dyn")) or "PrimaryKey" in name or "KeyDeserialize" in name \
            or "Bound" in name or "Prefixer" in name:
        return opaque_call(eng, st, name, args, site, call)
    return _blind_storage(eng, st, name, args, site, call)


# --------------------------------------------------------------------------- cw-controllers
@prim_re(r"^cw_controllers::(Admin|Hooks|Claims)::new$")
def p_ctl_new(eng, st, name, args, site, depth, call):
    return one(st, ("call", name, vals(eng, st, args)))


_CTL_READS = ("get", "is_admin", "assert_admin", "query_admin", "query_hooks", "query_claims", "query_hook")


@prim_re(r"^cw_controllers::(Admin|Hooks|Claims)::")
def p_ctl(eng, st, name, args, site, depth, call):
    vs = vals(eng, st, args)
    recv = vs[0]
    op = name.split("::")[-1]
    short = name.split("::")[-2] + "::" + op
    if op == "prepare_hooks":
        # one f(h) per registered hook: summarise the closure on an opaque hook address
        h = ("hookaddr",)
        out = []
        for s2, r in eng.call_value(st, args[2], [h], site, depth):
            # prepare_hooks collects f(h) for every hook and fails as a whole when any f(h) fails
            for s3, n, pl in eng.force_enum(s2, r, RESULT, site):
                if n == "Ok":
                    v = eng.val(s3, pl[0])
                    _eff(s3, "prim", name=short, item=recv, args=(recv, v), site=site)
                    out.append((s3, OK(("call", short, (recv, v)))))
                else:
                    out.append((s3, ERR(eng.val(s3, pl[0]))))
        return out
    kind = "prim"
    _eff(st, kind, name=short, item=recv, args=vs, op=("read" if op in _CTL_READS else "write"), site=site)
    return one(st, ("call", short, vs))


# --------------------------------------------------------------------------- responses
@prim("cosmwasm_std::Response::new", "cosmwasm_std::IbcBasicResponse::new")
def p_resp_new(eng, st, name, args, site, depth, call):
    return one(st, ("resp", name.split("::")[-2], (), None))


@prim("cosmwasm_std::IbcReceiveResponse::new")
def p_ibc_resp_new(eng, st, name, args, site, depth, call):
    return one(st, ("resp", "IbcReceiveResponse", (), eng.val(st, args[0])))


@prim_re(r"^cosmwasm_std::(Response|IbcBasicResponse|IbcReceiveResponse)::(add_attribute|add_attributes|add_event|add_events)$")
def p_resp_attr(eng, st, name, args, site, depth, call):
    return one(st, eng.val(st, args[0]))


@prim_re(r"^cosmwasm_std::(Response|IbcBasicResponse|IbcReceiveResponse)::(add_message|add_messages|add_submessage|add_submessages|set_data|set_ack)$")
def p_resp_msg(eng, st, name, args, site, depth, call):
    r = eng.val(st, args[0])
    m = eng.val(st, args[1])
    op = name.split("::")[-1]
    if r[0] != "resp":
        r = ("resp", name.split("::")[-2], (("base", r),), None)
    if op in ("set_data", "set_ack"):
        return one(st, ("resp", r[1], r[2], m))
    how = {"add_message": "msg", "add_messages": "msgs", "add_submessage": "submsg", "add_submessages": "submsgs"}[op]
    if how in ("msgs", "submsgs"):
        # the argument is any IntoIterator: flatten the spellings that denote a known sequence
        # ([a, b], Some(a) / None, a.into_iter().chain(b)) into single entries; an opaque collection stays one `msgs` entry
        def flat(x):
            if x[0] == "list":
                return [(how[:-1], y) for y in x[1]]
            if x[0] == "variant" and x[1] == OPTION:
                return [(how[:-1], x[3][0][1])] if x[2] == "Some" else []
            if x[0] == "call" and (x[1].endswith("Iterator::chain") or x[1] in ("extend", "chain")) and len(x[2]) == 2:
                return flat(x[2][0]) + flat(x[2][1])
            if x[0] == "call" and len(x[2]) == 1 and x[1].split("::")[-1] in ("collect", "from_iter", "into_iter", "iter", "to_vec", "cloned", "into_vec"):
                return flat(x[2][0])        # the same sequence, collected / viewed
            if x[0] == "call" and x[1] == "push" and len(x[2]) == 2:
                return flat(x[2][0]) + [(how[:-1], x[2][1])]
            if x[0] == "call" and x[1] in ("std::iter::once", "core::iter::once") and len(x[2]) == 1:
                return [(how[:-1], x[2][0])]
            if x[0] == "call" and x[1] in ("std::iter::empty", "core::iter::empty"):
                return []
            if x[0] == "default":
                return []       # Default of a collection / Option is empty
            return [(how, x)]
        return one(st, ("resp", r[1], r[2] + tuple(flat(m)), r[3]))
    if how == "submsg" and m[0] == "call" and m[1].endswith("SubMsg::new") and len(m[2]) == 1:
        how, m = "msg", m[2][0]     # add_submessage(SubMsg::new(x)) is add_message(x)
    return one(st, ("resp", r[1], r[2] + ((how, m),), r[3]))


# --------------------------------------------------------------------------- vectors
@prim("std::vec::Vec::new", "std::vec::Vec::with_capacity")
def p_vec_new(eng, st, name, args, site, depth, call):
    return one(st, ("list", ()))


@prim("std::vec::Vec::push")
def p_vec_push(eng, st, name, args, site, depth, call):
    a = args[0]
    cur = eng.val(st, a)
    x = eng.val(st, args[1])
    if cur[0] == "list":
        new = ("list", cur[1] + (x,))
    else:
        new = ("call", "push", (cur, x))
    if a[0] == "ref":
        eng.write_loc(st, a[1], a[2], new)
    return one(st, UNIT)


@prim("std::vec::Vec::extend_from_slice")
def p_vec_extend(eng, st, name, args, site, depth, call):
    a = args[0]
    cur = eng.val(st, a)
    x = eng.val(st, args[1])
    if cur[0] == "list" and x[0] == "list":
        new = ("list", cur[1] + x[1])
    else:
        new = ("call", "extend", (cur, x))
    if a[0] == "ref":
        eng.write_loc(st, a[1], a[2], new)
    return one(st, UNIT)


@prim_re(r"^<std::vec::Vec as std::iter::Extend>::extend$|^std::vec::Vec::extend$|^std::vec::Vec::append$")
def p_vec_extend2(eng, st, name, args, site, depth, call):
    a = args[0]
    cur = eng.val(st, a)
    x = eng.val(st, args[1])
    if cur[0] == "list" and x[0] == "list":
        new = ("list", cur[1] + x[1])
    elif cur == ("list", ()):
        new = x
    else:
        new = ("call", "extend", (cur, x))
    if a[0] == "ref":
        eng.write_loc(st, a[1], a[2], new)
    return one(st, UNIT)


@prim("std::boxed::Box::new_uninit")
def p_box_uninit(eng, st, name, args, site, depth, call):
    loc = ("heap", st.fresh())
    st.mem[loc] = ("uninit", "box")
    return one(st, ("ref", loc, ()))


@prim("std::boxed::box_assume_init_into_vec_unsafe")
def p_box_into_vec(eng, st, name, args, site, depth, call):
    v = eng.val(st, args[0])
    # unwrap MaybeUninit { value: ManuallyDrop { value: [..] } }
    for _ in range(6):
        if v[0] == "update" and len(v[2]) == 1:
            v = v[2][0][1]
        elif v[0] == "struct" and len(v[2]) == 1:
            v = v[2][0][1]
        elif v[0] == "tuple" and len(v[1]) == 1:
            v = v[1][0]
        else:
            break
    return one(st, v)


@prim("std::slice::<impl [T]>::into_vec", "std::slice::<impl [T]>::to_vec", "core::slice::<impl [T]>::to_vec")
def p_into_vec(eng, st, name, args, site, depth, call):
    return one(st, eng.val(st, args[0]))


@prim_re(r"^<(std::vec::Vec|\[T\]|std::vec::Vec<.*>) as std::ops::Index(Mut)?>::index(_mut)?$")
def p_index(eng, st, name, args, site, depth, call):
    """v[i]: the same term the slice patterns `[a]`, `[a, b, ..]` project (ConstantIndex)"""
    if "index_mut" in name:
        return opaque_call(eng, st, name, args, site, call)
    v, i = vals(eng, st, args)
    if v[0] == "list" and i[0] == "lit" and isinstance(i[1], int) and i[1] < len(v[1]):
        return one(st, v[1][i[1]])
    if i[0] == "lit":
        return one(st, ("index", v, i))
    return one(st, ("call", name, (v, i)))      # ranges etc. stay opaque


@prim("std::vec::Vec::len", "core::slice::<impl [T]>::len", "core::str::<impl str>::len", "std::string::String::len")
def p_len(eng, st, name, args, site, depth, call):
    v = eng.val(st, args[0])
    if v[0] == "list":
        return one(st, ("lit", len(v[1])))
    if v[0] == "str":
        return one(st, ("lit", len(v[1].encode())))
    return one(st, ("call", "len", (v,)))


@prim("std::vec::Vec::is_empty", "core::slice::<impl [T]>::is_empty")
def p_is_empty(eng, st, name, args, site, depth, call):
    v = eng.val(st, args[0])
    if v[0] == "list":
        return one(st, TRUE if not v[1] else FALSE)
    return one(st, ("call", "is_empty", (v,)))


# --------------------------------------------------------------------------- iteration
@prim_re(r"(^<.* as std::iter::Iterator>::next$)|(impl std::iter::Iterator for .*>::next$)")
def p_next(eng, st, name, args, site, depth, call):
    a = args[0]
    it = eng.val(st, a)
    if it[0] == "list" and a[0] == "ref":
        # an iterator over a sequence whose elements are all known ([x, y].into_iter(), a Vec built by pushes): exact
        if it[1]:
            eng.write_loc(st, a[1], a[2], ("list", it[1][1:]))
            return one(st, SOME(it[1][0]))
        return one(st, NONE)
    if it[0] == "default":
        return one(st, NONE)        # iterating the Default of a collection: empty
    n = st.fresh()
    res = ("calli", "next", (it,), n)
    if it[0] == "loopvar" and it[3] == 0:
        # first element of a parametric loop whose collection is nevertheless known to be non-empty at this call site (a literal
        # passed as argument): "no element" is not an execution
        for e in st.effects:
            if e.kind == "loop_enter" and e.name == it[1]:
                c0 = e.value.get(it[2]) if isinstance(e.value, dict) else None
                if isinstance(c0, tuple) and c0 and c0[0] == "list" and c0[1]:
                    st.refine[("only", res)] = ("Some",)
    if a[0] == "ref":
        # the iterator has moved on: a second next() on the same variable is a different element
        eng.write_loc(st, a[1], a[2], ("call", "advance", (it,)))
    return one(st, res)


@prim("std::mem::take")
def p_mem_take(eng, st, name, args, site, depth, call):
    a = args[0]
    v = eng.val(st, a)
    if a[0] == "ref":
        eng.write_loc(st, a[1], a[2], ("default", "?"))
    return one(st, v)


@prim("std::mem::replace")
def p_mem_replace(eng, st, name, args, site, depth, call):
    a = args[0]
    v = eng.val(st, a)
    if a[0] == "ref":
        eng.write_loc(st, a[1], a[2], eng.val(st, args[1]))
    return one(st, v)


# --------------------------------------------------------------------------- formatting noise
@prim_re(r"^(core|std)::fmt::")
def p_fmt(eng, st, name, args, site, depth, call):
    return one(st, ("call", name.split("::")[-1], vals(eng, st, args)))


@prim("std::fmt::format", "std::fmt::format::format_inner")
def p_format(eng, st, name, args, site, depth, call):
    return one(st, ("call", "format", vals(eng, st, args)))


@prim("core::panicking::panic", "core::panicking::panic_fmt", "std::rt::begin_panic")
def p_panic(eng, st, name, args, site, depth, call):
    return []


# --------------------------------------------------------------------------- in-place helpers with known effect
@prim("<cw_utils::NativeBalance as std::ops::AddAssign>::add_assign")
def p_nb_add_assign(eng, st, name, args, site, depth, call):
    a = args[0]
    new = ("bin", "nb_add", eng.val(st, a), eng.val(st, args[1]))
    if a[0] == "ref":
        eng.write_loc(st, a[1], a[2], new)
    return one(st, UNIT)


@prim("cw_utils::NativeBalance::normalize")
def p_nb_normalize(eng, st, name, args, site, depth, call):
    return one(st, UNIT)      # canonical ordering of the same multiset of coins


@prim("std::slice::<impl [T]>::sort", "std::slice::<impl [T]>::sort_by", "std::slice::<impl [T]>::sort_by_key",
      "std::slice::<impl [T]>::sort_unstable", "std::slice::<impl [T]>::sort_unstable_by", "std::slice::<impl [T]>::sort_unstable_by_key",
      "std::slice::<impl [T]>::sort_by_cached_key", "std::vec::Vec::dedup", "std::vec::Vec::dedup_by_key",
      "std::vec::Vec::dedup_by")
def p_sort_dedup(eng, st, name, args, site, depth, call):
    a = args[0]
    op = name.split("::")[-1]
    rest = tuple(eng.val(st, x) for x in args[1:])
    if not rest and call is not None and call.get("substs"):
        # natural order / equality of the element type: for a workspace type that is whatever its Ord / PartialEq impl says,
        # which the term must show (sorting rows by their own order is not sorting them by one of their fields)
        ety = call["substs"][0].get("ty", "").lstrip("&").replace("mut ", "").strip()
        if eng.facts.is_workspace_type(ety):
            rest = (("str", "by-impl:" + ety),)
    new = ("call", op, (eng.val(st, a),) + rest)
    if a[0] == "ref":
        eng.write_loc(st, a[1], a[2], new)
    return one(st, UNIT)



# --------------------------------------------------------------------------- internal iteration (closure-driven loops)
def _iter_loop(eng, st, name, args, site, depth, call):
    """try_fold / try_for_each / fold / for_each: summarised like a `for` loop traversed zero times and once, with the
    same loop_enter / loop_step effects, `next` decisions and loopvar terms the MIR loops get (idioms.acc_chain /
    loop_elem work unchanged).  Places the closure captured by `&mut` are loop variables too (field by field for a
    struct), exactly like locals assigned in a `for` body.  A failing closure result breaks out with that error."""
    op = name.split("::")[-1]
    it = eng.val(st, args[0])
    has_acc = op in ("try_fold", "fold")
    fallible = op.startswith("try_")
    clos = args[2] if has_acc else args[1]
    init = eng.val(st, args[1]) if has_acc else UNIT
    if it[0] == "default" or it == NONE:
        it = ("list", ())               # the Default of a collection / None, iterated: no element
    elif it[0] == "variant" and it[1] == OPTION and it[2] == "Some":
        it = ("list", (it[3][0][1],))   # Some(x), iterated: x
    if it[0] == "list" and len(it[1]) <= 8:
        # a literal sequence ([a, b, c].iter().fold(..)): apply the closure to each element in order
        states = [(st, init)]
        for x in it[1]:
            nxt_states = []
            for s_, acc in states:
                if isinstance(acc, tuple) and acc and acc[0] == "__break__":
                    nxt_states.append((s_, acc))
                    continue
                for s2, r in eng.call_value(s_, clos, ([acc, x] if has_acc else [x]), site, depth):
                    if fallible:
                        adt = r[1] if r[0] == "variant" else RESULT
                        for s3, n3, p3 in eng.force_enum(s2, r, adt, site):
                            if n3 in ("Err", "None"):
                                nxt_states.append((s3, ("__break__", ERR(p3[0]) if n3 == "Err" else NONE)))
                            else:
                                nxt_states.append((s3, eng.val(s3, p3[0]) if has_acc else UNIT))
                    else:
                        nxt_states.append((s2, eng.val(s2, r) if has_acc else UNIT))
            states = nxt_states
        out = []
        for s_, acc in states:
            if isinstance(acc, tuple) and acc and acc[0] == "__break__":
                out.append((s_, acc[1]))
            else:
                out.append((s_, OK(acc) if fallible else acc))
        return out
    lk = (site[2], ("iter", op, site[1]), st.fresh())
    # captured mutable places
    craw = clos
    n_ = 0
    while isinstance(craw, tuple) and craw and craw[0] == "ref" and n_ < 8:
        craw = eng.read_loc(st, craw[1], craw[2])
        n_ += 1
    leaves = []
    if isinstance(craw, tuple) and craw and craw[0] == "closure":
        for i, up in enumerate(craw[2]):
            if isinstance(up, tuple) and up and up[0] == "ref" and up[1] in st.mem:
                cur = eng.read_loc(st, up[1], up[2])
                if isinstance(cur, tuple) and cur and cur[0] == "struct":
                    for j, (n, v) in enumerate(cur[2]):
                        from .engine import HD
                        leaves += eng.loop_leaves(st, up[1], "up%d.%s" % (i, n), tuple(up[2]) + (HD({"f": j, "n": n}),), 1)
                elif not (isinstance(cur, tuple) and cur and cur[0] in ("ref", "path", "const")):
                    # (storage handles - a Path / an accessor const - are never reassigned by an iteration)
                    leaves.append((up[1], tuple(up[2]), "up%d" % i))
    if leaves:
        # trial iteration on a scratch copy: only the captured places an iteration actually changes become loop variables
        # (the rest are loop-invariant and keep their value)
        t0 = st.copy()
        tlk = (site[2], ("iter-trial", op, site[1]), t0.fresh())
        for loc, path, nm in leaves:
            eng.write_loc(t0, loc, path, ("loopvar", tlk, nm, 0))
        changed = set()
        telem = ("vfield", ("calli", "next", (("loopvar", tlk, "iter", 0),), t0.fresh()), "Some", "0")
        tacc = ("loopvar", tlk, "acc", 0)
        saved_paths, saved_steps = eng._paths, eng._steps
        saved_blind = set(eng.blind)
        try:
            for s2, r in eng.call_value(t0, clos, ([tacc, telem] if has_acc else [telem]), site, depth):
                for loc, path, nm in leaves:
                    if eng.val(s2, eng.read_loc(s2, loc, path)) != ("loopvar", tlk, nm, 0):
                        changed.add(nm)
        finally:
            eng._paths = saved_paths
            eng.blind = saved_blind          # the trial is not part of the summary
        leaves = [x for x in leaves if x[2] in changed]
    vals0 = {"iter": it}
    if has_acc:
        vals0["acc"] = init
    for loc, path, nm in leaves:
        vals0[nm] = eng.val(st, eng.read_loc(st, loc, path))
    st.effects.append(Effect("loop_enter", name=lk, value=vals0, site=site, loops=st.loopstack, stack=st.stack))
    for loc, path, nm in leaves:
        eng.write_loc(st, loc, path, ("loopvar", lk, nm, 0))
    it0 = ("loopvar", lk, "iter", 0)
    acc0 = ("loopvar", lk, "acc", 0) if has_acc else UNIT
    nxt = ("calli", "next", (it0,), st.fresh())
    out = []
    for s, n, p in eng.force_enum(st, nxt, OPTION, site):
        if n == "None":
            out.append((s, (OK(acc0) if fallible else acc0)))
            continue
        outer = s.loopstack
        s.loopstack = outer + (lk,)
        cargs = [acc0, p[0]] if has_acc else [p[0]]
        for s2, r in eng.call_value(s, clos, cargs, site, depth):
            if fallible:
                adt = r[1] if r[0] == "variant" else RESULT
                branches = eng.force_enum(s2, r, adt, site)
            else:
                branches = [(s2, "Ok", [r])]
            for s3, n3, p3 in branches:
                if n3 in ("Err", "None"):
                    s3.loopstack = outer
                    out.append((s3, ERR(p3[0]) if n3 == "Err" else NONE))
                    continue
                v = eng.val(s3, p3[0]) if p3 else UNIT
                vals1 = {"iter": ("call", "advance", (it0,))}
                if has_acc:
                    vals1["acc"] = v
                for loc, path, nm in leaves:
                    vals1[nm] = eng.val(s3, eng.read_loc(s3, loc, path))
                s3.effects.append(Effect("loop_step", name=lk, value=vals1, site=site, loops=s3.loopstack, stack=s3.stack))
                for loc, path, nm in leaves:
                    eng.write_loc(s3, loc, path, ("loopvar", lk, nm, 1))
                s3.loopstack = outer
                acc1 = ("loopvar", lk, "acc", 1) if has_acc else UNIT
                if fallible:
                    out.append((s3, (SOME(acc1) if n3 == "Some" else OK(acc1))))
                else:
                    out.append((s3, acc1))
    return out


@prim_re(r"Iterator>::(try_fold|try_for_each|for_each|fold)$")
def p_iter_loop(eng, st, name, args, site, depth, call):
    return _iter_loop(eng, st, name, args, site, depth, call)


@prim("std::iter::Iterator::try_fold", "std::iter::Iterator::try_for_each", "std::iter::Iterator::for_each",
      "std::iter::Iterator::fold")
def p_iter_loop2(eng, st, name, args, site, depth, call):
    return _iter_loop(eng, st, name, args, site, depth, call)


@prim("std::option::Option::is_some_and", "std::option::Option::is_none_or", "std::result::Result::is_ok_and",
      "std::result::Result::is_err_and")
def p_is_and(eng, st, name, args, site, depth, call):
    adt = _adt_of(name)
    op = name.split("::")[-1]
    hit = {"is_some_and": "Some", "is_none_or": "Some", "is_ok_and": "Ok", "is_err_and": "Err"}[op]
    out = []
    for s, n, p in eng.force_enum(st, args[0], adt, site):
        if n == hit:
            out.extend(_call_closure(eng, s, args[1], [p[0]], site, depth))
        else:
            out.append((s, TRUE if op == "is_none_or" else FALSE))
    return out


@prim("cosmwasm_std::Uint128::one", "cosmwasm_std::Uint64::one")
def p_one(eng, st, name, args, site, depth, call):
    return one(st, ("lit", 1))


@prim("cosmwasm_std::wasm_execute")
def p_wasm_execute(eng, st, name, args, site, depth, call):
    """wasm_execute(addr, &msg, funds) = Ok(WasmMsg::Execute{contract_addr: addr.into(), msg: to_json_binary(msg)?, funds})"""
    addr, msg, funds = vals(eng, st, args)
    ser = ("call", "cosmwasm_std::to_json_binary", (msg,))
    out = []
    for s, n, p in eng.force_enum(st, ser, RESULT, site):
        if n == "Ok":
            out.append((s, OK(("variant", "cosmwasm_std::results::cosmos_msg::WasmMsg", "Execute",
                                (("contract_addr", addr), ("msg", p[0]), ("funds", funds))))))
        else:
            out.append((s, ERR(p[0])))
    return out


@prim("std::option::Option::flatten")
def p_opt_flatten(eng, st, name, args, site, depth, call):
    out = []
    for s, n, p in eng.force_enum(st, args[0], OPTION, site):
        out.append((s, eng.val(s, p[0]) if n == "Some" else NONE))
    return out


@prim("std::option::Option::zip")
def p_opt_zip(eng, st, name, args, site, depth, call):
    out = []
    for s, n, p in eng.force_enum(st, args[0], OPTION, site):
        if n == "None":
            out.append((s, NONE))
            continue
        for s2, n2, p2 in eng.force_enum(s, args[1], OPTION, site):
            out.append((s2, SOME(("tuple", (p[0], p2[0]))) if n2 == "Some" else NONE))
    return out


@prim("std::option::Option::and", "std::result::Result::and")
def p_and(eng, st, name, args, site, depth, call):
    adt = _adt_of(name)
    out = []
    for s, n, p in eng.force_enum(st, args[0], adt, site):
        if n in ("Some", "Ok"):
            out.append((s, eng.val(s, args[1])))
        else:
            out.append((s, NONE if adt == OPTION else ERR(p[0])))
    return out


@prim("std::option::Option::is_some_or", "std::option::Option::then_some", "core::bool::<impl bool>::then_some")
def p_then_some(eng, st, name, args, site, depth, call):
    out = []
    for s, b in eng.force_bool(st, args[0], site):
        out.append((s, SOME(eng.val(s, args[1])) if b else NONE))
    return out


@prim("core::bool::<impl bool>::then")
def p_then(eng, st, name, args, site, depth, call):
    out = []
    for s, b in eng.force_bool(st, args[0], site):
        if b:
            for s2, r in _call_closure(eng, s, args[1], [], site, depth):
                out.append((s2, SOME(r)))
        else:
            out.append((s, NONE))
    return out


@prim("std::result::Result::map_or", "std::result::Result::map_or_else")
def p_res_map_or(eng, st, name, args, site, depth, call):
    out = []
    for s, n, p in eng.force_enum(st, args[0], RESULT, site):
        if n == "Ok":
            out.extend(_call_closure(eng, s, args[2], [p[0]], site, depth))
        elif name.endswith("map_or"):
            out.append((s, eng.val(s, args[1])))
        else:
            out.extend(_call_closure(eng, s, args[1], [p[0]], site, depth))
    return out


@prim_re(r"(^|>::|::)Iterator::sum$|Iterator>::sum$")
def p_iter_sum(eng, st, name, args, site, depth, call):
    v = eng.val(st, args[0])
    if v[0] == "list" and v[1]:
        acc = v[1][0]
        for x in v[1][1:]:
            acc = ("bin", "add", acc, x)
        return one(st, acc)
    return opaque_call(eng, st, name, args, site, call)


@prim("std::iter::Iterator::any", "std::iter::Iterator::all", "std::iter::Iterator::find", "std::iter::Iterator::position",
      "std::iter::Iterator::count")
def p_iter_consume2(eng, st, name, args, site, depth, call):
    return p_iter_consume(eng, st, name, args, site, depth, call)


@prim_re(r"^<.* as std::iter::Iterator>::(any|all|find|position|count|fold)$")
def p_iter_consume(eng, st, name, args, site, depth, call):
    vs = vals(eng, st, args)
    eng.note_blind(name, vs)
    return one(st, ("call", name.split("::")[-1], vs))
