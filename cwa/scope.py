"""which contract crates each property's rules read (storage-namespace rule, relevance of corpus patches)"""
CRATES_OF = {
    "C01": ["cw20_base"], "C02": ["cw20_base"], "C13": ["cw20_base"], "C19": ["cw20_base"],
    "C03": ["cw3_fixed_multisig", "cw3_flex_multisig"], "C04": [], "C05": ["cw3_fixed_multisig", "cw3_flex_multisig"],
    "C06": ["cw3_fixed_multisig", "cw3_flex_multisig", "cw4_group", "cw4_stake"], "C15": ["cw3_flex_multisig"],
    "C07": ["cw1_whitelist", "cw1_subkeys"], "C08": ["cw1_subkeys"], "C16": ["cw1_whitelist", "cw1_subkeys"],
    "C17": ["cw1_whitelist", "cw1_subkeys"], "C09": ["cw4_group", "cw4_stake"], "C10": ["cw4_stake"],
    "C14": ["cw4_group", "cw4_stake"], "C11": ["cw20_ics20"], "C12": ["cw20_ics20"], "C18": ["cw20_ics20"],
    "C20": ["cw20_base", "cw1_subkeys", "cw3_fixed_multisig", "cw3_flex_multisig", "cw4_group", "cw4_stake", "cw20_ics20"],
}
