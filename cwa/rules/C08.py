"""C08 - cw1-subkeys: a subkey never spends beyond its unexpired native allowance."""
from ..engine import show, OPTION
from ..idioms import dispatch, entry_points, update_base, loaded_from, walk, stored_entry, field_of
from ..prims import is_rmw, is_rmw_in_place
from .listing import extract
from .cw1common import SENDER, BLOCK, items, admin_cond, NB_SUB, NB_SUB_SAT, IS_EXPIRED

ID = "C08"
RULES = {
    "R08.1": "spend form: the Bank::Send arm updates ALLOWANCES[info.sender]; the update fails when the entry is absent or "
             "is_expired(entry.expires, env.block); otherwise stores entry{balance: (balance - coins)?} using the checked "
             "NativeBalance - Vec<Coin> (errs on any under-covered denomination) with the message's own coin list; "
             "`expires` untouched",
    "R08.2": "cumulative: the spend is an atomic `update` inside the per-message loop (it re-reads the cell written by the "
             "previous iteration; nothing is cached across iterations)",
    "R08.3": "isolation: non-admin Execute paths write no cell other than ALLOWANCES[info.sender]",
    "R08.4": "admin-only grants: every other write to ALLOWANCES / PERMISSIONS is guarded by is_admin(stored, info.sender) = true",
    "R08.7": "no other writer: entry points other than execute (instantiate, migrate, ...) write neither ALLOWANCES nor PERMISSIONS - "
             "a grant, its balance and its expiry change only through the guarded handlers above",
    "R08.5": "increase: amount is added (NativeBalance +=) to the stored entry only when it is unexpired, else to a fresh "
             "default; a new expiry must satisfy is_expired = false; decrease: fails on missing/expired entries, uses "
             "sub_saturating with the message's coin, and removes the entry when the result is empty",
    "R08.6": "queries hide expired allowances: the Allowance query returns the stored entry only under is_expired = false, "
             "the listing filters on !is_expired before take",
}


def run(ctx):
    ctx.rule_texts.update(RULES)
    ctx.assumptions += ["A-ATOMIC", "A-PRIMS: NativeBalance::sub errs when any denomination is under-covered; sub_saturating "
                        "saturates at zero; add_assign adds one coin"]
    ctx.not_decided += ["multi-denomination arithmetic inside NativeBalance (external crate)", "Expiration semantics"]
    ADMIN, ALW, PERM = items(ctx)
    if not ctx.ob("R08.1", "anchor:storage namespaces", None not in (ADMIN, ALW, PERM), trivial=True,
                  detail="admin_list / allowances / permissions namespaces not found"):
        return
    eps = entry_points(ctx.facts, "cw1_subkeys")
    paths = ctx.summarise(eps["execute"])
    n_spend = n_inc = n_dec = 0
    for variant, ps in sorted(dispatch(paths).items(), key=lambda x: str(x[0])):
        key = "execute/%s" % variant
        for p in ps:
            if p.is_err():
                continue
            pol, _ = admin_cond(ctx, p, ADMIN, SENDER)
            writes = [(i, e) for i, e in enumerate(p.effects) if e.kind == "write"]
            if variant == "Execute" and pol is not True:
                for i, e in writes:
                    if not (e.item == ALW and e.key == SENDER):
                        ctx.ob("R08.3", key + "/foreign write in %s" % e.site[2], False, sites=[e.site],
                               detail="non-admin Execute writes %s" % repr(e)[:200])
                        continue
                    n_spend += 1
                    prob = check_spend(p, i, e)
                    ctx.ob("R08.1", key + "/spend in %s" % e.site[2], prob is None, detail=prob, sites=[e.site],
                           sample={"spend": show(e.value)[:300]})
                    ctx.ob("R08.2", key + "/spend in %s" % e.site[2], is_rmw_in_place(e) and bool(e.loops), sites=[e.site],
                           detail="spend is not an atomic update inside the per-message loop (op=%s, in loop=%s)" % (e.op, bool(e.loops)),
                           sample={"op": e.op, "loop": str(e.loops[-1][:2]) if e.loops else None})
                ctx.ob("R08.3", key + "/non-admin", True, trivial=not writes, sample={"writes": [repr(e)[:160] for _, e in writes]})
                continue
            for i, e in writes:
                if e.item not in (ALW, PERM):
                    continue
                pol2, _ = admin_cond(ctx, p, ADMIN, SENDER, before=i)
                ctx.ob("R08.4", key + "/%s in %s" % (e.op, e.site[2]), pol2 is True, sites=[e.site],
                       detail="grant written without is_admin(stored, info.sender) = true before the write",
                       sample={"write": repr(e)[:200]})
            if variant == "IncreaseAllowance":
                for i, e in writes:
                    if e.item == ALW:
                        n_inc += 1
                        prob = check_increase(p, i, e)
                        ctx.ob("R08.5", key + "/form", prob is None, detail=prob, sites=[e.site], sample={"value": show(e.value)[:300]})
            if variant == "DecreaseAllowance":
                upd = [(i, e) for i, e in writes if e.item == ALW and is_rmw(e) and e.op != "remove"]
                rem = [(i, e) for i, e in writes if e.item == ALW and e.op == "remove"]
                for i, e in upd:
                    n_dec += 1
                    prob = check_decrease(p, i, e, rem)
                    ctx.ob("R08.5", key + "/form", prob is None, detail=prob, sites=[e.site], sample={"value": show(e.value)[:300]})
                if not upd:
                    ctx.ob("R08.5", key + "/form", False, detail="DecreaseAllowance Ok-path without an ALLOWANCES update")
    for ename, fn in sorted(eps.items()):
        if ename in ("execute", "query"):
            continue
        bad = []
        for p in ctx.summarise(fn):
            if not p.is_err():
                bad += [e for e in p.effects if e.kind == "write" and e.item in (ALW, PERM)]
        ctx.ob("R08.7", "%s writes no grants" % ename, not bad, sites=[e.site for e in bad],
               detail="%s rewrites subkey grants: %s" % (ename, [repr(e)[:160] for e in bad[:2]]), sample={"writes": 0})
    ctx.floor("R08.1", "spend paths", n_spend, 1)
    ctx.floor("R08.5", "increase paths", n_inc, 2)
    ctx.floor("R08.5", "decrease paths", n_dec, 2)
    check_queries(ctx, eps, ALW)


def check_spend(p, i, e):
    if not is_rmw_in_place(e) or e.op == "remove":
        return "spend is not a read-modify-write of the stored entry within the iteration that relays the message"
    base, fields = update_base(e.value)
    old, present = stored_entry(e, p)
    if base != old:
        return "spend stores a value not derived from the stored entry: %s" % show(e.value)[:200]
    if set(fields) != {"balance"}:
        return "spend changes fields %s (only `balance` may change)" % sorted(fields)
    b = fields["balance"]
    if not (b[0] == "vfield" and b[2] == "Ok" and b[1][0] == "call"):
        return "new balance is not the checked subtraction: %s" % show(b)[:200]
    if b[1][1] != NB_SUB:
        return "new balance computed with %s, not the checked NativeBalance - Vec<Coin>" % b[1][1]
    if b[1][2][0] != ("field", base, "balance"):
        return "subtraction does not start from the stored balance"
    amt = b[1][2][1]
    if not (amt[0] == "vfield" and amt[2] == "Send" and amt[3] == "amount"):
        return "subtracted amount %s is not the Bank::Send message's coin list" % show(amt)[:160]
    if not present:
        return "spend succeeds without a stored allowance"
    exp = ("field", base, "expires")
    if not any(c[0][0] == "call" and c[0][1] == IS_EXPIRED and c[0][2] == (exp, BLOCK) and c[1] is False for c in p.conds):
        return "spend succeeds without is_expired(entry.expires, env.block) = false"
    return None


def check_increase(p, i, e):
    if not is_rmw(e) or e.op == "remove":
        return "increase is not a read-modify-write of the stored entry"
    base, fields = update_base(e.value)
    old, _ = stored_entry(e, p)
    b = fields.get("balance")
    if not b or not (b[0] == "bin" and b[1] == "nb_add"):
        return "balance is not (base balance += amount): %s" % show(b)[:200]
    amount = ("vfield", ("param", "msg"), "IncreaseAllowance", "amount")
    if b[3] != amount:
        return "added amount %s is not the message's amount" % show(b[3])[:120]
    if b[2] != ("field", base, "balance") and not (base[0] == "default" and b[2] == ("field", base, "balance")):
        return "addition does not start from the base entry's balance"
    if base == old:
        exp = ("field", old, "expires")
        if not any(c[0][0] == "call" and c[0][1] == IS_EXPIRED and c[0][2] == (exp, BLOCK) and c[1] is False for c in p.conds):
            return "stored entry reused without is_expired(entry.expires, env.block) = false (an expired allowance must restart from zero)"
    elif base[0] != "default":
        return "base entry is neither the stored one nor a fresh default: %s" % show(base)[:160]
    if "expires" in fields:
        ne = fields["expires"]
        if not any(c[0][0] == "call" and c[0][1] == IS_EXPIRED and c[0][2] == (ne, BLOCK) and c[1] is False for c in p.conds):
            return "new expiry %s stored without is_expired(new, env.block) = false" % show(ne)[:120]
    else:
        # keeping the previous expiry: it must not be expired either
        if base[0] == "default":
            # prev_expires.is_expired must be false: the default (Never) or the stored one
            pe = [c for c in p.conds if c[0][0] == "call" and c[0][1] == IS_EXPIRED and c[1] is False]
            if not pe:
                return "allowance restarted without checking that the expiry kept is unexpired"
    if set(fields) - {"balance", "expires"}:
        return "unexpected fields changed %s" % sorted(fields)
    return None


def entry_view(e, old):
    """(balance, expires) of the value written, whether it is the stored entry with fields assigned or an entry built anew
    (struct literal naming every field); None when it is neither"""
    base, fields = update_base(e.value)
    if base == old:
        return field_of(e.value, "balance"), field_of(e.value, "expires")
    if base[0] == "struct" and {"balance", "expires"} <= set(n for n, _ in base[2]):
        return field_of(e.value, "balance"), field_of(e.value, "expires")
    return None


def check_decrease(p, i, e, rem):
    old, present = stored_entry(e, p)
    view = entry_view(e, old)
    if view is None:
        return "decrease stores a value not derived from the stored entry"
    b, ne = view
    if not present:
        return "decrease succeeds without a stored allowance"
    exp = ("field", old, "expires")
    if not any(c[0][0] == "call" and c[0][1] == IS_EXPIRED and c[0][2] == (exp, BLOCK) and c[1] is False for c in p.conds):
        return "decrease succeeds on an expired allowance"
    amount = ("vfield", ("param", "msg"), "DecreaseAllowance", "amount")
    if not (b and b[0] == "vfield" and b[2] == "Ok" and b[1][0] == "call" and b[1][1] == NB_SUB_SAT):
        return "balance not lowered with sub_saturating: %s" % show(b)[:200]
    if b[1][2] != (("field", old, "balance"), amount):
        return "sub_saturating operands are not (stored balance, message amount)"
    if ne != exp:
        if not any(c[0][0] == "call" and c[0][1] == IS_EXPIRED and c[0][2] == (ne, BLOCK) and c[1] is False for c in p.conds):
            return "new expiry stored without is_expired(new, env.block) = false"
    # removal iff empty
    emp = None
    for c in p.conds:
        if c[0][0] == "call" and c[0][1].endswith("NativeBalance::is_empty") and isinstance(c[1], bool):
            emp = c
    if emp is None:
        return "no is_empty decision after the decrease"
    if emp[0][2][0] != b:
        return "is_empty is evaluated on %s, not on the balance just stored" % show(emp[0][2][0])[:160]
    if emp[1] is True and not (len(rem) == 1 and rem[0][1].key == e.key and rem[0][0] > i):
        return "entry not removed although the decreased balance is empty"
    if emp[1] is False and rem:
        return "entry removed although the decreased balance is not empty"
    return None


def check_queries(ctx, eps, ALW):
    paths = ctx.summarise(eps["query"])
    groups = dispatch(paths)
    n = 0
    for p in groups.get("Allowance", []):
        if p.is_err():
            continue
        n += 1
        r = p.ret
        # which loaded entries appear in the returned value
        ents = [x for x in walk(r) if x[0] == "vfield" and x[2] == "Some" and loaded_from(x) and loaded_from(x)[0] == ALW]
        for ent in ents:
            exp = ("field", ent, "expires")
            good = any(c[0][0] == "call" and c[0][1] == IS_EXPIRED and c[0][2] == (exp, BLOCK) and c[1] is False for c in p.conds)
            ctx.ob("R08.6", "query/Allowance", good, detail="stored allowance returned without is_expired = false on the path",
                   sample={"ret": show(r)[:200]})
        if not ents:
            ctx.ob("R08.6", "query/Allowance/default", True, trivial=True)
    ctx.floor("R08.6", "Allowance query paths", n, 2)
    n = 0
    for p in groups.get("AllAllowances", []):
        if p.is_err():
            continue
        L = extract(p)
        if L is None:
            continue
        if L.loop is not None and L.acc is not None:
            # loop form: the page is bounded by what was pushed (`len < n` guard), and an element is pushed iff unexpired
            n += 1
            good, why = True, None
            if L.page_how != "guard":
                good, why = False, "the iterator is cut with take() before the loop skips expired entries"
            elif L.took:
                dec = [c for c in p.conds if c[0][0] == "call" and c[0][1] == IS_EXPIRED and c[0][2][1] == BLOCK
                       and any(y == L.elem for y in walk(c[0][2][0]))]
                if not dec:
                    good, why = False, "an entry is listed/skipped without an is_expired(entry.expires, env.block) decision"
                elif L.pushed is not None and dec[0][1] is not False:
                    good, why = False, "an expired allowance is listed"
                elif L.pushed is None and dec[0][1] is not True:
                    good, why = False, "an unexpired allowance is skipped"
            ctx.ob("R08.6", "query/AllAllowances", good, detail=why, sample={"loop": str(L.loop[:2]), "page": show(L.page)[:80] if L.page else None})
            continue
        takes = [x for x in walk(p.ret) if x[0] == "call" and x[1].endswith("Iterator::take")]
        for t in takes:
            n += 1
            src = t[2][0]
            good = src[0] == "call" and src[1].endswith("Iterator::filter")
            why = "listing applies take() to %s - expired allowances are not filtered before the page is cut" % show(src)[:120]
            if good:
                clos = src[2][1]
                b = ctx.engine.by_dp.get(clos[1]) if clos[0] == "closure" else None
                good = False
                why = "filter closure is not `!entry.expires.is_expired(env.block)` for Ok items"
                if b is not None:
                    cps = ctx.engine.summarise(b, args=[clos, ("param", "ITEM")])
                    oks = [cp for cp in cps if any(c[0] == ("param", "ITEM") and c[1] == "Ok" for c in cp.conds)]
                    good = bool(oks)
                    for cp in oks:
                        rv = cp.ret
                        if not (rv[0] == "not" and rv[1][0] == "call" and rv[1][1] == IS_EXPIRED and rv[1][2][1] == BLOCK
                                and rv[1][2][0][0] == "field" and rv[1][2][0][2] == "expires"):
                            # may have been decided as a branch
                            dec = [c for c in cp.conds if c[0][0] == "call" and c[0][1] == IS_EXPIRED]
                            if not (dec and ((dec[0][1] is False and rv == ("lit", True)) or (dec[0][1] is True and rv == ("lit", False)))):
                                good = False
            ctx.ob("R08.6", "query/AllAllowances", good, detail=why, sample={"chain": show(t)[:240]})
    ctx.floor("R08.6", "AllAllowances listing paths", n, 1)
