"""C06 - cw3: each ballot is one eligible voter's weight from the proposal's own snapshot."""
from ..engine import show, OPTION
from ..idioms import dispatch, entry_points, update_base, loaded_from, field_of, nf, walk, order_facts, acc_chain, loop_elem
from ..prims import is_rmw
from .cw3common import (SENDER, BLOCK, HEIGHT, CS, IS_EXPIRED, STATUS, VOTE, CONTRACTS, status, items, exec_paths,
                        is_expired_cond, cs_is_passed, cs_not_passed, stored_status_in, cs_term)

ID = "C06"
RULES = {
    "R06.1": "one ballot: the voting write is an insert-if-absent update keyed (proposal_id, info.sender) (an existing ballot "
             "has no Ok outcome); the only other BALLOTS write is the proposer's at the freshly issued id",
    "R06.2": "admission: a vote is recorded only when stored status is in {Open, Passed, Rejected} and "
             "is_expired(stored.expires, env.block) = false",
    "R06.3": "weight provenance: fixed - W is the caller's stored VOTERS weight and W >= 1 (proposer: same cell, any weight); "
             "flex - W is the group's Member{addr: info.sender, at_height: stored.start_height}.weight with W >= 1, and "
             "start_height is env.block.height at creation",
    "R06.4": "snapshot consistency (flex): every group read that flows into Ballot.weight, Votes or Proposal.total_weight at "
             "creation is taken at the proposal's snapshot height, not live",
    "R06.5": "fixed total: CONFIG.total_weight is the sum of the weights of the same voter list that populates VOTERS, and that "
             "population cannot silently merge a repeated address (insert-if-absent or validated unique)",
    "R06.7": "the group answers the snapshot read truthfully: Member{addr, at_height: Some(h)} of cw4-group and cw4-stake answers "
             "may_load_at_height(MEMBERS, addr, h) with the caller's h (shared with C09 R09.3) - the flex multisig's ballot weights are "
             "exactly these answers",
    "R06.8": "the total a group-backed proposal is measured against is the sum of the voters' weights of the same snapshot: both "
             "group contracts keep TOTAL = sum of MEMBERS on every membership write, at the height of the write, and the cw4 helper "
             "the multisig calls (Cw4Contract::total_weight / is_member) reads exactly those cells (shared with C09 R09.1 / R09.2 / R09.5)",
    "R06.6": "frozen membership: (fixed) nothing writes VOTERS or CONFIG outside instantiate; (flex) whatever rewrites the "
             "configuration later carries the group address over from the stored one - a proposal's voters are measured at its own "
             "start height, which only means something in the group it was opened against",
}


def SOME(x):
    return ("variant", OPTION, "Some", (("0", x),))


def group_reads(t):
    """(kind, term) for every cross-contract read inside t: raw Map/Item::query (live) or smart queries"""
    out = []
    for x in walk(t):
        if x[0] == "call" and x[1] in ("Map::query", "Item::query", "SnapshotMap::query", "SnapshotItem::query"):
            out.append(("raw-live", x))
        elif x[0] == "call" and x[1].endswith("QuerierWrapper::query") or (x[0] == "call" and x[1].endswith("query_wasm_smart")):
            ah = None
            for y in walk(x):
                if y[0] == "variant" and y[2] in ("Member", "TotalWeight"):
                    ah = dict(y[3]).get("at_height")
            out.append(("smart", x, ah))
    return out


def run(ctx):
    ctx.rule_texts.update(RULES)
    from ..idioms import check_overflow_profile
    check_overflow_profile(ctx)
    ctx.assumptions += ["A-ATOMIC", "A-PRIMS", "the group contract answers Member{at_height} from its own snapshot (see C09)"]
    ctx.not_decided += ["the group's own snapshot correctness (C09, external SnapshotMap)"]
    it = items(ctx)
    if not ctx.ob("R06.1", "anchor:storage namespaces", all(v is not None for v in it.values()), trivial=True,
                  detail="cw3 storage namespaces not found"):
        return
    PROP, BAL, VOTERS = it["proposals"], it["ballots"], it["voters"]
    n_vote = n_create = 0
    for crate in CONTRACTS:
        groups = exec_paths(ctx, crate)
        for variant, ps in sorted(groups.items(), key=lambda x: str(x[0])):
            key = "%s::execute/%s" % (crate, variant)
            for p in ps:
                if p.is_err():
                    continue
                bw = [(i, e) for i, e in enumerate(p.effects) if e.kind == "write" and e.item == BAL]
                pw = [(i, e) for i, e in enumerate(p.effects) if e.kind == "write" and e.item == PROP]
                for i, e in bw:
                    creating = any(x.value[0] == "struct" for _, x in pw if x.op != "remove")
                    W = field_of(e.value, "weight") if e.op != "remove" else None
                    if creating:
                        n_create += 1
                        prop = [x for _, x in pw if x.value[0] == "struct"][0]
                        good = e.op == "save" and e.key == ("tuple", (prop.key, SENDER))
                        ctx.ob("R06.1", key + "/proposer ballot", good, sites=[e.site],
                               detail="proposer's ballot is not saved at (new proposal id, info.sender): %s" % show(e.key)[:160],
                               sample={"key": show(e.key)[:160]})
                        sh = field_of(prop.value, "start_height")
                        ctx.ob("R06.3", key + "/start_height", sh == HEIGHT, sites=[prop.site],
                               detail="start_height is %s, not env.block.height" % show(sh)[:100], sample={"start_height": show(sh)})
                        check_creation_weight(ctx, key, crate, e, prop, W, VOTERS, p)
                        continue
                    # a vote
                    n_vote += 1
                    pid = None
                    good = is_rmw(e) and e.op != "remove" and e.key[0] == "tuple" and len(e.key[1]) == 2 and e.key[1][1] == SENDER
                    if good:
                        pid = e.key[1][0]
                        good = any(c[0] == e.old and c[1] == "None" for c in p.conds) and e.value[0] == "struct"
                    ctx.ob("R06.1", key + "/vote ballot", good, sites=[e.site],
                           detail="ballot write is not an insert-if-absent update at (proposal_id, info.sender): op=%s key=%s" % (e.op, show(e.key)[:120]),
                           sample={"key": show(e.key)[:120], "op": e.op})
                    # which stored proposal is voted on
                    stored = None
                    for c in p.conds:
                        lf = loaded_from(("vfield", c[0], "Ok", "0")) if c[0][0] == "load" and c[1] == "Ok" else None
                        if lf and lf[0] == PROP and lf[1] == pid:
                            stored = ("vfield", c[0], "Ok", "0")
                    if stored is None:
                        ctx.ob("R06.2", key + "/admission", False, detail="vote recorded without loading the proposal it is cast on", sites=[e.site])
                        continue
                    g1 = stored_status_in(ctx, p, stored, ("Open", "Passed", "Rejected"), before=i)
                    g2 = is_expired_cond(p, ("field", stored, "expires"), False, before=i)
                    ctx.ob("R06.2", key + "/admission", g1 and g2, sites=[e.site],
                           detail="ballot recorded without the guards (status in {Open,Passed,Rejected}: %s, not expired: %s)" % (g1, g2),
                           sample={"guards": [g1, g2]})
                    # provenance
                    ge1 = any(hi == W and ((lo == ("lit", 1) and not strict) or (lo == ("lit", 0) and strict) or (lo == ("lit", 1) and strict))
                              for lo, hi, strict, c in order_facts(p.conds, before=i))
                    if crate == "cw3_fixed_multisig":
                        lf = loaded_from(W)
                        good = lf is not None and lf[0] == VOTERS and lf[1] == SENDER
                        why = "ballot weight %s is not the caller's stored VOTERS weight" % show(W)[:160]
                    else:
                        reads = group_reads(W)
                        sh_ = ("field", stored, "start_height")
                        good = len(reads) == 1 and reads[0][0] == "smart" and reads[0][2] in (sh_, ("variant", OPTION, "Some", (("0", sh_),)))
                        if good:
                            q = reads[0][1]
                            mem = [y for y in walk(q) if y[0] == "variant" and y[2] == "Member"]
                            good = bool(mem) and dict(mem[0][3]).get("addr") == SENDER and W[0] == "vfield" and W[2] == "Some" \
                                and W[1][0] == "field" and W[1][2] == "weight"
                        why = "ballot weight %s is not Member{addr: info.sender, at_height: stored.start_height}.weight" % show(W)[:240]
                    ctx.ob("R06.3", key + "/weight provenance", good, detail=why, sites=[e.site], sample={"weight": show(W)[:200]})
                    ctx.ob("R06.3", key + "/weight >= 1", ge1, detail="vote accepted without the decision weight >= 1", sites=[e.site],
                           sample={"guard": "1 <= weight"})
    ctx.floor("R06.1", "vote ballot writes", n_vote, 2)
    ctx.floor("R06.1", "proposer ballot writes", n_create, 2)
    check_fixed_instantiate(ctx, it)
    from . import C09
    sub = type(ctx)(ctx.pid, ctx.facts, ctx.engine, ctx.tier, ctx.tree_hash)
    C09.check_queries(sub, C09.items(sub))
    for k in sub.order:
        o = sub.obs[k]
        if o.rule == "R09.3" and "query/Member" in o.key:
            ctx.ob("R06.7", o.key, True if o.status == "discharged" else (None if o.status == "undecided" else False),
                   detail="; ".join(o.details), sites=o.sites, sample=o.sample)
    # R06.8: the total the flex multisig copies into Proposal.total_weight is the group's TOTAL; it equals the sum of the
    # member weights of the same snapshot exactly when the group keeps TOTAL = sum(MEMBERS) on every write (C09 R09.1/R09.2)
    sub2 = type(ctx)(ctx.pid, ctx.facts, ctx.engine, ctx.tier, ctx.tree_hash)
    it9 = C09.items(sub2)
    C09.check_group(sub2, it9)
    C09.check_stake(sub2, it9)
    C09.check_keys(sub2, it9)       # Cw4Contract::total_weight / is_member read the very cells the groups maintain
    for k in sub2.order:
        o = sub2.obs[k]
        if (o.rule in ("R09.1", "R09.2") or (o.rule == "R09.5" and o.key.startswith("Cw4Contract::"))) \
                and not o.key.startswith(("anchor", "floor")):
            ctx.ob("R06.8", o.key, True if o.status == "discharged" else (None if o.status == "undecided" else False),
                   detail="; ".join(o.details), sites=o.sites, sample=o.sample, trivial=o.trivial)
    check_flex_group_fixed(ctx, it)
    # R06.6
    eps = entry_points(ctx.facts, "cw3_fixed_multisig")
    for name, fn in sorted(eps.items()):
        if name == "instantiate":
            continue
        bad = []
        for p in ctx.summarise(fn, opaque={CS}):
            if not p.is_err():
                bad += [e for e in p.effects if e.kind == "write" and e.item in (it["voters"], it["fixed_config"])]
        ctx.ob("R06.6", "cw3_fixed_multisig::%s" % name, not bad, sites=[e.site for e in bad],
               detail="%s writes VOTERS/CONFIG after instantiation" % name, sample={"writes": 0})


def check_flex_group_fixed(ctx, it):
    """R06.6 (flex): the group a proposal's ballots are measured in is the one its snapshot height belongs to"""
    eps = entry_points(ctx.facts, "cw3_flex_multisig")
    CFG = it["flex_config"]
    n = 0
    for name, fn in sorted(eps.items()):
        if name in ("instantiate", "query"):
            continue
        for p in ctx.summarise(fn, opaque={CS}):
            if p.is_err():
                continue
            for e in p.effects:
                if e.kind == "write" and e.item == CFG:
                    n += 1
                    base, fields = update_base(e.value) if e.op != "remove" else (None, {})
                    lf = loaded_from(base) if base is not None else None
                    keeps = lf is not None and lf[0] == CFG and lf[2] == e.ver and "group_addr" not in fields
                    ctx.ob("R06.6", "cw3_flex_multisig::%s keeps the group" % name, keeps, sites=[e.site],
                           detail="flex CONFIG written after instantiation with the group address not carried over from the stored "
                                  "configuration: open proposals would measure their voters at their own start height in a different group",
                           sample={"changed": sorted(fields)})
    ctx.ob("R06.6", "cw3_flex_multisig: group fixed after instantiation", True, trivial=True, sample={"config_writes_after_instantiate": n})


def check_creation_weight(ctx, key, crate, ballot, prop, W, VOTERS, p=None):
    votes = field_of(prop.value, "votes")
    tw = field_of(prop.value, "total_weight")
    if crate == "cw3_fixed_multisig":
        lf = loaded_from(W)
        ctx.ob("R06.3", key + "/proposer weight", lf is not None and lf[0] == VOTERS and lf[1] == SENDER, sites=[ballot.site],
               detail="proposer's weight %s is not the caller's stored VOTERS weight" % show(W)[:160], sample={"weight": show(W)[:160]})
        lt = loaded_from(tw[1]) if tw[0] == "field" else None
        ctx.ob("R06.5", key + "/total from CONFIG", tw[0] == "field" and tw[2] == "total_weight" and lt is not None, sites=[prop.site],
               detail="proposal total_weight %s is not CONFIG.total_weight" % show(tw)[:160], sample={"total": show(tw)[:120]})
        return
    sh = field_of(prop.value, "start_height")
    for what, term in (("proposer weight", W), ("total weight", tw)):
        reads = group_reads(term)
        if not reads and what == "proposer weight" and p is not None and (term[0] == "default" or term == ("lit", 0)):
            # the one zero-weight ballot the property allows: a proposer whom the snapshot read found without (voting) weight
            absent = [c for c in p.conds if c[1] == "None" and any(r[0] == "smart" and r[2] in (sh, HEIGHT, SOME(sh), SOME(HEIGHT))
                                                                   for r in group_reads(c[0]))]
            def snap(t):
                return any(r[0] == "smart" and r[2] in (sh, HEIGHT, SOME(sh), SOME(HEIGHT)) for r in group_reads(t))
            from ..idioms import order_facts
            zero = [c for lo, hi, strict, c in order_facts(p.conds) if snap(lo) and ((hi == ("lit", 1) and strict) or (hi == ("lit", 0) and not strict))]
            absent = absent or zero
            ctx.ob("R06.4", key + "/proposer weight zero when absent from the snapshot", bool(absent), sites=[prop.site],
                   detail="proposer's ballot weighs 0 without the snapshot read having found no weight for the proposer",
                   sample={"weight": show(term)[:60]})
            continue
        if not reads:
            ctx.ob("R06.4", key + "/" + what, False, detail="%s %s does not come from the group" % (what, show(term)[:160]), sites=[prop.site])
            continue
        for r in reads:
            if r[0] == "raw-live" or (r[0] == "smart" and r[2] in (None, ("variant", OPTION, "None", ()))):
                ctx.ob("R06.4", "%s/%s read live" % (key, what), False, sites=[prop.site, ballot.site],
                       detail="%s is read from the group's live state (%s) while voters are measured at the proposal's start-of-block "
                              "snapshot: a membership change earlier in the same block makes ballot/total disagree with the snapshot"
                              % (what, show(r[1])[:160]))
            else:
                ctx.ob("R06.4", "%s/%s at snapshot" % (key, what), r[2] in (sh, HEIGHT, SOME(sh), SOME(HEIGHT)), sites=[prop.site],
                       detail="%s read at height %s, not at the proposal's start height" % (what, show(r[2])[:100]),
                       sample={"read": show(r[1])[:200]})


def check_fixed_instantiate(ctx, it):
    eps = entry_points(ctx.facts, "cw3_fixed_multisig")
    VOTERS, CFG = it["voters"], it["fixed_config"]
    n = 0
    for p in ctx.summarise(eps["instantiate"]):
        if p.is_err():
            continue
        cw = [e for e in p.effects if e.kind == "write" and e.item == CFG]
        vw = [e for e in p.effects if e.kind == "write" and e.item == VOTERS]
        if len(cw) != 1:
            ctx.ob("R06.5", "instantiate/config", False, detail="%d CONFIG writes at instantiation" % len(cw))
            continue
        n += 1
        tw = field_of(cw[0].value, "total_weight")
        # total = sum(map(iter(LIST), |v| v.weight))
        lst = None
        good_sum = False
        if tw[0] == "call" and tw[1].endswith("Iterator::sum") and tw[2][0][0] == "call" and tw[2][0][1].endswith("Iterator::map"):
            lst, clos = tw[2][0][2]
            b = ctx.engine.by_dp.get(clos[1]) if clos[0] == "closure" else None
            if b is not None:
                cps = ctx.engine.summarise(b, args=[clos, ("param", "V")])
                good_sum = len(cps) == 1 and cps[0].ret == ("field", ("param", "V"), "weight")
        if tw[0] == "loopvar":
            # the same sum spelled as a loop: total starts at 0 and each iteration adds exactly the element's weight
            base, chain = acc_chain(p, tw)
            if base == ("lit", 0) and len(chain) == 1:
                lk, var, delta = chain[0]
                ent = [x for x in p.effects if x.kind == "loop_enter" and x.name == lk][0]
                el = loop_elem(p, lk)
                ivars = [c[0][2][0][2] for c in p.conds if c[0][0] == "calli" and c[0][1] == "next" and c[0][2][0][0] == "loopvar" and c[0][2][0][1] == lk]
                lst = ent.value.get(ivars[0]) if ivars else None
                if delta is None:
                    good_sum = lst is not None          # zero iterations: the sum of nothing
                elif not isinstance(delta, str):
                    good_sum = lst is not None and delta.atoms == {("field", el, "weight"): 1} and not delta.const and not delta.inexact
        ctx.ob("R06.5", "instantiate/total is the sum of the listed weights", good_sum, sites=[cw[0].site],
               detail="CONFIG.total_weight is %s, not the sum of voters[i].weight" % show(tw)[:160], sample={"total": show(tw)[:160]})
        if not vw:
            # an iteration over the summed list that stores no voter: that entry's weight is in the total but nobody holds it
            for ent in [x for x in p.effects if x.kind == "loop_enter"]:
                if lst is None or not any(v == lst for v in ent.value.values()):
                    continue
                took = any(c[0][0] == "calli" and c[0][1] == "next" and c[1] == "Some" and c[0][2][0][0] == "loopvar" and c[0][2][0][1] == ent.name
                           and c[0][2][0][3] == 0 for c in p.conds)
                if took:
                    ctx.ob("R06.5", "instantiate/every listed voter is stored", False, sites=[ent.site],
                           detail="a successful instantiate path takes an entry of the voter list and stores no voter for it (skipped "
                                  "entry), while total_weight sums the whole list")
            continue
        for e in vw:
            prob = None
            if not e.loops:
                prob = "VOTERS written outside a loop over the voter list"
            else:
                lk = e.loops[-1]
                ent = [x for x in p.effects if x.kind == "loop_enter" and x.name == lk][0]
                iterates = any(v == lst for v in ent.value.values())
                if not iterates:
                    prob = "VOTERS is populated from %s, but the total sums %s" % ([show(v)[:80] for v in ent.value.values()], show(lst)[:80])
                else:
                    el = None
                    for x in walk(e.value):
                        if x[0] == "vfield" and x[2] == "Some" and x[1][0] == "calli" and x[1][1] == "next":
                            el = x
                    if e.value != ("field", el, "weight") and not is_rmw(e):
                        prob = "weight stored %s is not the list element's weight" % show(e.value)[:120]
                    elif is_rmw(e) and e.op != "remove":
                        if not any(c[0] == e.old and c[1] == "None" for c in p.conds):
                            prob = "the write to VOTERS is not insert-if-absent (an existing entry is overwritten)"
                    elif e.op == "save":
                        # overwrite: a repeated address is summed twice but stored once, unless rejected beforehand
                        idx = p.effects.index(ent)
                        uniq = False
                        for c in p.conds:
                            if c[3] > idx:
                                continue
                            names = [x[1] for x in walk(c[0]) if x[0] == "call"]
                            if any(n_.startswith("dedup") for n_ in names) and any(n_.startswith("sort") for n_ in names):
                                uniq = True
                            if any("BTreeSet" in n_ or "HashSet" in n_ for n_ in names):
                                uniq = True
                        # or an in-loop presence check on the same key that errs
                        for c in p.conds:
                            if c[0][0] in ("has", "may_load") and c[0][1] == VOTERS and c[0][2] == e.key:
                                uniq = True
                        if not uniq:
                            prob = ("voters are stored with `save` (overwrite) without rejecting repeated addresses: "
                                    "instantiate with [A:1, A:1, B:1] stores total_weight 3 while the voters' weights sum to 2")
                    elif e.op == "update":
                        if not any(c[0] == e.old and c[1] == "None" for c in p.conds):
                            prob = "update of VOTERS is not insert-if-absent"
            ctx.ob("R06.5", "instantiate/voters populated consistently with the total", prob is None, detail=prob, sites=[e.site],
                   sample={"write": repr(e)[:200]})
    ctx.floor("R06.5", "instantiate Ok-paths", n, 1)
