"""C09 - cw4: total and point-in-time member weights always match the true history."""
from ..prims import is_rmw
from ..engine import show, OPTION
from ..idioms import (dispatch, entry_points, loaded_from, nf, walk, acc_chain, loop_elem, cell_delta, field_of, NF, previous_or_zero,
                      update_base)
from .cw4common import SENDER, BLOCK, HEIGHT, items

ID = "C09"
RULES = {
    "R09.1": "total tracks members: in cw4-group every iteration that writes MEMBERS[K] changes the running total by exactly "
             "(new weight - previous weight of K) (removal: -previous weight, read from the same cell with no write in "
             "between); the value saved to TOTAL is that running total, which started from the stored TOTAL (create: from 0, "
             "members validated unique). In cw4-stake every MEMBERS write is paired with TOTAL += new - old on the same "
             "path, old being MEMBERS[K] read before the write, and no write happens when new == old",
    "R09.2": "recorded at the block height: the height argument of every snapshot write is env.block.height of the entry point",
    "R09.3": "at-height reads: Member{at_height: Some(h)} / TotalWeight{at_height: Some(h)} answer may_load_at_height(.., h) "
             "with the caller's h; None answers the live value",
    "R09.4": "strategy: every snapshot container is declared with Strategy::EveryBlock",
    "R09.6": "the member listing the total is compared with is complete: ListMembers of both group contracts paginates with an "
             "exclusive cursor, ascending, limit min(limit or 10, 30) (shared with C20)",
    "R09.5": "raw keys agree: both contracts' TOTAL / MEMBERS namespaces are the cw4 TOTAL_KEY / MEMBERS_KEY constants that "
             "Cw4Contract reads raw; primary / checkpoint / changelog namespaces are pairwise distinct; member_key's length "
             "prefix is the exact length of MEMBERS_KEY (fits a byte)",
}


def member_write_delta(p, e, item):
    """NF of (new - old) for one MEMBERS write; returns (nf or None, problem)"""
    if is_rmw(e) and e.op != "remove" and e.old[1][0] == "may_load":
        # update(k, h, f) or its unfolding may_load(k) .. save(k, v, h): new minus (previous or 0)
        d = NF()
        d.merge(nf(e.value), 1)
        d.merge(previous_or_zero(p, e.old), -1)
        return d, None
    if e.op == "remove":
        # previous value must have been read from the same key at the same version
        reads = [r for r in p.effects if r.kind == "read" and r.item == item and r.key == e.key and r.op == "may_load"]
        for c in p.conds:
            t = c[0]
            if c[1] == "Some" and t[0] == "vfield" and t[2] == "Ok" and t[1][0] == "may_load" and t[1][1] == item and t[1][2] == e.key:
                if t[1][3] != e.ver:
                    return None, "weight read at version %s but removed at version %s (write in between)" % (t[1][3], e.ver)
                d = NF()
                d.add_atom(("vfield", t, "Some", "0"), -1)
                return d, None
        return None, "removal of a member whose previous weight was not read from the same cell"
    if e.op == "save":
        d = nf(e.value)
        return d, "save"
    return None, "unknown op"


def run(ctx):
    ctx.rule_texts.update(RULES)
    from ..idioms import check_overflow_profile
    check_overflow_profile(ctx)
    ctx.assumptions += ["A-ATOMIC", "A-PRIMS: SnapshotMap/SnapshotItem(save|update|remove)(.., height) record the previous value once "
                        "per block under Strategy::EveryBlock; may_load_at_height(h) returns the value at the start of block h",
                        "A-OVF: u64 arithmetic on totals aborts on overflow"]
    ctx.not_decided += ["that cw-storage-plus SnapshotMap returns the value as of the start of block h (external crate)",
                        "byte-level key encoding of cw-storage-plus"]
    it = items(ctx)
    if not ctx.ob("R09.1", "anchor:storage namespaces", all(v is not None for v in it.values()), trivial=True,
                  detail="cw4 storage namespaces not found: %s" % [k for k, v in it.items() if v is None]):
        return
    check_group(ctx, it)
    check_stake(ctx, it)
    check_queries(ctx, it)
    check_keys(ctx, it)
    # the listing the total is compared with must enumerate every member exactly once (shared with C20)
    from . import C20
    sub = type(ctx)(ctx.pid, ctx.facts, ctx.engine, ctx.tier, ctx.tree_hash)
    C20.run(sub)
    for k in sub.order:
        o = sub.obs[k]
        if ("cw4_group::query/ListMembers" in o.key or "cw4_stake::query/ListMembers" in o.key) and not o.key.startswith(("anchor", "floor")):
            ctx.ob("R09.6", o.key, True if o.status == "discharged" else (None if o.status == "undecided" else False),
                   detail="; ".join(o.details), sites=o.sites, sample=o.sample)


def check_group(ctx, it):
    TOTAL, MEM = it["g_total"], it["g_members"]
    eps = entry_points(ctx.facts, "cw4_group")
    n_mw = set()
    n_h = 0
    for ename in ("instantiate", "execute"):
        paths = ctx.summarise(eps[ename])
        groups = dispatch(paths) if ename == "execute" else {None: paths}
        for variant, ps in sorted(groups.items(), key=lambda x: str(x[0])):
            key = "cw4_group::%s/%s" % (ename, variant)
            for p in ps:
                if p.is_err():
                    continue
                mw = [e for e in p.effects if e.kind == "write" and e.item == MEM]
                tw = [e for e in p.effects if e.kind == "write" and e.item == TOTAL]
                for e in mw + tw:
                    n_h += 1
                    ctx.ob("R09.2", key + "/%s %s height" % ("MEMBERS" if e.item == MEM else "TOTAL", e.op), e.extra == HEIGHT, sites=[e.site],
                           detail="snapshot write recorded at height %s, not env.block.height" % show(e.extra)[:120],
                           sample={"height": show(e.extra)})
                if ename == "instantiate":
                    good = len(tw) == 1 and not tw[0].loops
                    ctx.ob("R09.1", key + "/TOTAL initialised on every path", good, sites=[e.site for e in tw],
                           detail="instantiate Ok-path with %d TOTAL writes (%s): a group created with an empty / short member list would "
                                  "have no stored total, and the raw TOTAL_KEY read would differ from the TotalWeight query"
                                  % (len(tw), "inside the member loop" if tw and tw[0].loops else "none"), sample={"total_writes": len(tw)})
                if not mw and not tw:
                    continue
                if mw and not tw:
                    ctx.ob("R09.1", key + "/total saved", False, detail="members written but TOTAL saved %d times" % len(tw), sites=[e.site for e in mw])
                    continue
                if not tw:
                    continue
                # one totalling segment per TOTAL save (a message may run the member update more than once, each run reading the
                # total the previous one saved); every member write belongs to the loops of exactly one of them
                all_chain = set()
                for t_ in tw:
                    all_chain |= set(lk for lk, _, _ in acc_chain(p, t_.value)[1])
                for t in tw:
                    base, chain = acc_chain(p, t.value)
                    creating = ename == "instantiate"
                    if creating:
                        base_ok = base == ("lit", 0)
                        why = "running total starts from %s, not 0" % show(base)[:120]
                    else:
                        lf = loaded_from(base)
                        base_ok = lf is not None and lf[0] == TOTAL and lf[2] == t.ver
                        why = "running total starts from %s, not the stored TOTAL" % show(base)[:120]
                    ctx.ob("R09.1", key + "/total base", base_ok, detail=why, sites=[t.site], sample={"base": show(base)[:120]})
                    if t is tw[0]:
                        for e in mw:
                            n_mw.add("update" if (is_rmw(e) and e.op == "save") else e.op)
                            if not e.loops or e.loops[-1] not in all_chain:
                                ctx.ob("R09.1", key + "/member write outside the totalling loops", False, sites=[e.site],
                                       detail="MEMBERS %s is not inside a loop whose running total is saved to TOTAL" % e.op)
                    for lk, var, delta in chain:
                        ws = [e for e in mw if e.loops and e.loops[-1] == lk]
                        if delta is None:
                            continue            # zero iterations on this path
                        kk = key + "/loop@%s:%s" % (lk[0].split("::")[-1], ws[0].op if ws else "no-write")
                        if isinstance(delta, str):
                            ctx.ob("R09.1", kk, False, detail="total update is %s" % delta, sites=[e.site for e in ws])
                            continue
                        want = NF()
                        prob = None
                        for e in ws:
                            d, pr = member_write_delta(p, e, MEM)
                            if d is None:
                                prob = pr
                                break
                            if pr == "save" and not creating:
                                prob = "member overwritten with save outside creation"
                                break
                            want.merge(d, 1)
                        if prob is None and creating and ws:
                            # UNIQUE-KEYS: duplicates rejected before the loop
                            ent = [x for x in p.effects if x.kind == "loop_enter" and x.name == lk][0]
                            idx = p.effects.index(ent)
                            src = [v for v in ent.value.values() if any(y[0] == "call" and y[1].startswith("sort") for y in walk(v))]
                            adj = [c for c in p.conds if c[3] <= idx and c[0][0] == "cmp" and c[0][1] == "eq" and c[1] is False
                                   and c[0][2][0] == "field" and c[0][2][2] == "addr"]
                            empty_or_single = True
                            if not src:
                                prob = "members are created from a list that was not sorted/validated for uniqueness"
                        if prob is None and (delta.inexact or want.inexact):
                            prob = "inexact arithmetic %s" % (delta.inexact + want.inexact)
                        good = prob is None and delta == want
                        ctx.ob("R09.1", kk, good, sites=[e.site for e in ws],
                               detail=prob or "running total changes by %s per iteration but the member writes of that iteration change the "
                                              "weights by %s" % (delta.show(), want.show()),
                               sample={"total_delta": delta.show(), "member_delta": want.show()})
    ctx.floor("R09.1", "cw4-group MEMBERS write kinds (save/update/remove)", len(n_mw), 3)
    ctx.floor("R09.2", "cw4-group snapshot writes", n_h, 3)
    # uniqueness validation itself: adjacent compare after sort (create and update_members share it)
    vb = "cw4_group::helpers::validate_unique_members"
    if ctx.ob("R09.1", "anchor:validate_unique_members", vb in ctx.facts.bodies, trivial=True, detail="validate_unique_members not found"):
        ps = ctx.summarise(vb)
        okp = [p for p in ps if p.is_ok()]
        good = True
        for p in okp:
            if not unique_ok_path(ctx, p):
                good = False
        ctx.ob("R09.1", "validate_unique_members: sort + adjacent-equal => Err", good and bool(okp),
               detail="validate_unique_members has an Ok-path that does not sort and compare adjacent addresses",
               sample={"ok_paths": len(okp)})


def _addr_eq(t):
    """t is `X.addr == Y.addr` for two distinct element terms X, Y"""
    if not (isinstance(t, tuple) and t and t[0] == "cmp" and t[1] == "eq"):
        return False
    a, b = t[2], t[3]
    return a[0] == "field" and b[0] == "field" and a[2] == "addr" and b[2] == "addr" and a[1] != b[1]


def unique_ok_path(ctx, p):
    """an Ok-path of the duplicate check is acceptable when the members were sorted and either (loop form) it walked adjacent
    pairs of the sorted list and found the addresses of the pair it visited different, or (combinator form) a
    find/any/position over windows(2)/zip(skip 1) of the sorted list with an `a.addr == b.addr` closure found nothing"""
    def sorted_src(v):
        return any(y[0] == "call" and y[1].startswith("sort") for y in walk(v))

    def adjacent(v):
        return any(y[0] == "call" and (y[1].endswith("zip") or y[1].endswith("windows")) for y in walk(v))
    ents = [e for e in p.effects if e.kind == "loop_enter"]
    if any(sorted_src(v) and adjacent(v) for e in ents for v in e.value.values()):
        one_iter = any(c[0][0] == "calli" and c[1] == "Some" for c in p.conds)
        neq = any(_addr_eq(c[0]) and c[1] is False for c in p.conds)
        return (not one_iter) or neq
    # index form: for i in 1..len { sorted[i - 1].addr == sorted[i].addr }
    idx_neq = idx_iter = False
    for c in p.conds:
        t = c[0]
        if t[0] == "cmp" and t[1] == "eq" and _addr_eq(t):
            a, b = t[2][1], t[3][1]
            if a[0] == "index" and b[0] == "index" and a[1] == b[1] and sorted_src(a[1]):
                d = nf(a[2])
                d.merge(nf(b[2]), -1)
                if not d.atoms and abs(d.const) == 1 and not d.inexact:
                    idx_iter = True
                    idx_neq = idx_neq or c[1] is False
    if idx_iter:
        return idx_neq
    if any(e.kind == "loop_enter" and any(y[0] == "call" and y[1] == "len" and sorted_src(y) for v in e.value.values() for y in walk(v))
           for e in p.effects) and not any(c[0][0] == "calli" and c[1] == "Some" for c in p.conds):
        return True     # zero iterations of the index loop over the sorted list: fewer than two members
    for c in p.conds:
        t = c[0]
        if t[0] == "call" and t[1].split("::")[-1] in ("find", "any", "position") and len(t[2]) == 2 and sorted_src(t[2][0]) and adjacent(t[2][0]):
            clos = t[2][1]
            b = ctx.engine.by_dp.get(clos[1]) if clos[0] == "closure" else None
            if b is None:
                continue
            cps = ctx.engine.summarise(b, args=[clos, ("param", "PAIR")])
            rets = [cp.ret for cp in cps]
            if len(rets) == 1 and _addr_eq(rets[0]) and c[1] in ("None", False):
                return True
        if t[0] == "call" and t[1].split("::")[-1] == "find_map" and len(t[2]) == 2 and sorted_src(t[2][0]) and adjacent(t[2][0]) and c[1] == "None":
            # find_map(|(a, b)| (a.addr == b.addr).then_some(a)) found nothing
            clos = t[2][1]
            b = ctx.engine.by_dp.get(clos[1]) if clos[0] == "closure" else None
            if b is None:
                continue
            cps = ctx.engine.summarise(b, args=[clos, ("param", "PAIR")])
            if len(cps) == 1 and cps[0].ret[0] == "call" and cps[0].ret[1].split("::")[-1] in ("then_some", "then") and _addr_eq(cps[0].ret[2][0]):
                return True
            if len(cps) == 2 and all(len(cp.conds) == 1 and _addr_eq(cp.conds[0][0]) and cp.ret[0] == "variant"
                                     and (cp.ret[2] == "Some") == (cp.conds[0][1] is True) for cp in cps):
                return True
    return False


def check_stake(ctx, it):
    TOTAL, MEM = it["s_total"], it["s_members"]
    eps = entry_points(ctx.facts, "cw4_stake")
    n_pair = 0
    for ename, fn in sorted(eps.items()):
        if ename == "query":
            continue
        paths = ctx.summarise(fn)
        groups = dispatch(paths) if ename == "execute" else {None: paths}
        for variant, ps in sorted(groups.items(), key=lambda x: str(x[0])):
            key = "cw4_stake::%s/%s" % (ename, variant)
            for p in ps:
                if p.is_err():
                    continue
                mw = [(i, e) for i, e in enumerate(p.effects) if e.kind == "write" and e.item == MEM]
                tw = [(i, e) for i, e in enumerate(p.effects) if e.kind == "write" and e.item == TOTAL]
                for i, e in mw:
                    ctx.ob("R09.2", key + "/MEMBERS %s height" % e.op, e.extra == HEIGHT, sites=[e.site],
                           detail="snapshot write recorded at height %s, not env.block.height" % show(e.extra)[:120], sample={"height": show(e.extra)})
                if ename == "instantiate":
                    good = not mw and len(tw) == 1 and tw[0][1].value == ("lit", 0)
                    ctx.ob("R09.1", key + "/initial total", good, detail="instantiate must start with no members and TOTAL = 0",
                           sites=[e.site for _, e in tw], sample={"total": 0})
                    continue
                if not mw and not tw:
                    continue
                n_pair += 1
                prob = None
                if len(mw) != 1 or len(tw) != 1:
                    prob = "%d MEMBERS writes and %d TOTAL writes on one path" % (len(mw), len(tw))
                else:
                    (i, e), (j, t) = mw[0], tw[0]
                    # old = MEMBERS[K] read before the write at the same version
                    old = None
                    for c in p.conds:
                        x = c[0]
                        if x[0] == "may_load" and x[1] == MEM and x[2] == e.key and c[1] == "Ok" and x[3] == e.ver:
                            old = ("vfield", x, "Ok", "0")
                    d = cell_delta(t, path=p)
                    if old is None:
                        prob = "previous weight of %s not read before the write" % show(e.key)[:80]
                    elif d.nf is None:
                        prob = d.problem
                    else:
                        want = NF()
                        if e.op == "save":
                            want.merge(nf(e.value), 1)
                        want.merge(previous_or_zero(p, old), -1)
                        # the total may spell "previous or 0" symbolically where the path decided it: bring both to one form
                        dn = NF()
                        dn.merge(d.nf, 1)
                        oz = ("orzero", old)
                        if oz in dn.atoms and previous_or_zero(p, old).atoms != {oz: 1}:
                            k_ = dn.atoms.pop(oz)
                            dn.merge(previous_or_zero(p, old), k_)
                        d.nf = dn
                        if d.nf.inexact:
                            prob = "inexact arithmetic on TOTAL: %s" % d.nf.inexact
                        elif not (d.nf == want):
                            prob = "TOTAL changes by %s but the member's weight changes by %s" % (d.nf.show(), want.show())
                ctx.ob("R09.1", key + "/members+total", prob is None, detail=prob, sites=[e.site for _, e in mw + tw],
                       sample={"paired": True})
    ctx.floor("R09.1", "cw4-stake membership-changing paths", n_pair, 2)


def absent_zero(p, want, item=None):
    """the answer is the zero default on the path that decided the read absent (`match stored { Some(w) => w, None => 0 }`)"""
    zero = any(x[0] == "default" or x == ("lit", 0) for x in walk(p.ret))
    if not zero:
        return False
    for c in p.conds:
        t = c[0]
        inner = t[1] if t[0] == "vfield" and t[2] == "Ok" else t
        if c[1] == "None" and ((want is not None and inner == want) or
                               (item is not None and inner[0] == "may_load" and inner[1] == item)):
            return True
    return False


def check_queries(ctx, it):
    for crate, MEM, TOTAL in (("cw4_group", it["g_members"], it["g_total"]), ("cw4_stake", it["s_members"], it["s_total"])):
        eps = entry_points(ctx.facts, crate)
        groups = dispatch(ctx.summarise(eps["query"]))
        n = 0
        for p in groups.get("Member", []):
            if p.is_err():
                continue
            h = ("vfield", ("param", "msg"), "Member", "at_height")
            hv = [c[1] for c in p.conds if c[0] == h]
            addr = ("vfield", ("call", "cosmwasm_std::Api::addr_validate", (("field", ("param", "deps"), "api"), ("vfield", ("param", "msg"), "Member", "addr"))), "Ok", "0")
            n += 1
            if hv == ["Some"]:
                want = ("call", "may_load_at_height", (MEM, addr, ("vfield", h, "Some", "0")))
                good = any(x == want for x in walk(p.ret))
                ctx.ob("R09.3", "%s::query/Member at height" % crate, good,
                       detail="Member{at_height: Some(h)} does not answer may_load_at_height(MEMBERS, validated addr, h): %s" % show(p.ret)[:200],
                       sample={"ret": show(p.ret)[:200]})
            elif hv == ["None"]:
                good = any(x[0] == "may_load" and x[1] == MEM and x[2] == addr for x in walk(p.ret)) and \
                    not any(x[0] == "call" and x[1] == "may_load_at_height" for x in walk(p.ret))
                ctx.ob("R09.3", "%s::query/Member live" % crate, good,
                       detail="Member{at_height: None} does not answer the live MEMBERS value: %s" % show(p.ret)[:200],
                       sample={"ret": show(p.ret)[:200]})
        ctx.floor("R09.3", "%s Member query paths" % crate, n, 2)
        # cw4-stake keeps a plain total today (no `at_height` in its query); should it grow a snapshot total, the same answers
        # are required of it as of cw4-group
        historic = crate == "cw4_group" or any(c[0] == ("vfield", ("param", "msg"), "TotalWeight", "at_height")
                                                for p in groups.get("TotalWeight", []) for c in p.conds)
        if historic:
            n = 0
            for p in groups.get("TotalWeight", []):
                if p.is_err():
                    continue
                h = ("vfield", ("param", "msg"), "TotalWeight", "at_height")
                hv = [c[1] for c in p.conds if c[0] == h]
                n += 1
                if hv == ["Some"]:
                    want = ("call", "may_load_at_height", (TOTAL, ("unit",), ("vfield", h, "Some", "0")))
                    good = any(x == want for x in walk(p.ret)) or absent_zero(p, want)
                    ctx.ob("R09.3", "%s::query/TotalWeight at height" % crate, good,
                           detail="TotalWeight{at_height: Some(h)} does not answer may_load_at_height(TOTAL, h): %s" % show(p.ret)[:200],
                           sample={"ret": show(p.ret)[:200]})
                elif hv == ["None"]:
                    good = (any(x[0] in ("may_load", "load") and x[1] == TOTAL for x in walk(p.ret)) or
                            absent_zero(p, None, TOTAL)) and \
                        not any(x[0] == "call" and x[1] == "may_load_at_height" for x in walk(p.ret))
                    ctx.ob("R09.3", "%s::query/TotalWeight live" % crate, good,
                           detail="TotalWeight{at_height: None} does not answer the live TOTAL: %s" % show(p.ret)[:200], sample={"ret": show(p.ret)[:160]})
            ctx.floor("R09.3", "%s TotalWeight query paths" % crate, n, 2)
        else:
            for p in groups.get("TotalWeight", []):
                if p.is_err():
                    continue
                good = any(x[0] in ("load", "may_load") and x[1] == TOTAL for x in walk(p.ret))
                ctx.ob("R09.3", "%s::query/TotalWeight live" % crate, good, detail="TotalWeight does not answer the stored TOTAL", sample={"ret": show(p.ret)[:160]})


def check_keys(ctx, it):
    eng = ctx.engine
    info = {}
    for k in ("g_total", "g_members", "s_total", "s_members"):
        ns = eng.namespace_of(it[k])
        info[k] = ns
    cw4c = {}
    for name in ("TOTAL_KEY", "MEMBERS_KEY", "MEMBERS_CHECKPOINTS", "MEMBERS_CHANGELOG", "TOTAL_KEY_CHECKPOINTS", "TOTAL_KEY_CHANGELOG"):
        # the constant by name, in whatever module of the cw4 package it is declared
        cs = [d_["dp"] for d_ in ctx.facts.crates["cw4"]["bodies"] if d_["kind"] == "const" and d_["path"].split("::")[-1] == name]
        v = eng.eval_const(cs[0], None) if len(cs) == 1 else None
        cw4c[name] = v[1] if v and v[0] == "str" else None
    ctx.ob("R09.5", "anchor:cw4 key constants", all(cw4c.values()), trivial=True, detail="cw4 key constants not found: %s" % cw4c)
    for k, want in (("g_total", "TOTAL_KEY"), ("s_total", "TOTAL_KEY"), ("g_members", "MEMBERS_KEY"), ("s_members", "MEMBERS_KEY")):
        ns = info[k]
        good = ns is not None and ns[0][0] == cw4c[want]
        ctx.ob("R09.5", "%s namespace is cw4::%s" % (k, want), good,
               detail="%s uses namespace %s but Cw4Contract reads the raw key %s" % (k, ns[0][0] if ns else None, cw4c[want]),
               sample={"namespace": ns[0][0] if ns else None})
        if ns is not None and "Snapshot" in ns[1]:
            ctx.ob("R09.4", "%s strategy" % k, ns[0][-1].endswith("EveryBlock{}") or "EveryBlock" in ns[0][-1],
                   detail="%s is declared with snapshot strategy %s, not EveryBlock" % (k, ns[0][-1]), sample={"strategy": ns[0][-1]})
            names = list(ns[0][:3])
            ctx.ob("R09.5", "%s namespaces distinct" % k, len(set(names)) == 3,
                   detail="primary/checkpoint/changelog namespaces collide: %s" % names, sample={"namespaces": names})
    allns = set()
    for k in ("g_total", "g_members"):
        if info[k]:
            allns |= set(info[k][0][:3])
    ctx.ob("R09.5", "cw4-group snapshot namespaces pairwise distinct", len(allns) == 6, detail="namespaces collide: %s" % sorted(allns),
           sample={"namespaces": sorted(allns)})
    # the cw4 helper other contracts use for raw reads must address the same two namespaces
    H = "cw4::helpers::Cw4Contract::"
    for fn, want, kind in ((H + "total_weight", "TOTAL_KEY", "Item::query"), (H + "is_member", "MEMBERS_KEY", "Map::query")):
        if not ctx.ob("R09.5", "anchor:%s" % fn.split("::")[-1], fn in ctx.facts.bodies, trivial=True, detail="%s not found" % fn):
            continue
        good = False
        seen_ns = []
        for p_ in ctx.summarise(fn):
            for x in walk(p_.ret):
                if x[0] == "call" and x[1] == kind:
                    src = x[2][0]
                    if src[0] == "const":           # the remote accessor declared as a const: read its initialiser
                        nsx = eng.namespace_of(src)
                        if nsx and nsx[0]:
                            src = ("call", nsx[1], (("str", nsx[0][0]),))
                    if src[0] == "call" and src[1].endswith("::new") and src[2] and src[2][0][0] == "str":
                        seen_ns.append(src[2][0][1])
                        # raw read of the group contract itself (self.addr()) and, for members, keyed by the member address
                        addr_ok = x[2][1] == ("field", ("param", "self"), "0")
                        key_ok = kind != "Map::query" or x[2][2] == ("param", "member")
                        if src[2][0][1] == cw4c[want] and addr_ok and key_ok:
                            good = True
        ctx.ob("R09.5", "Cw4Contract::%s reads raw %s" % (fn.split("::")[-1], want), good,
               detail="Cw4Contract::%s raw-queries namespace(s) %s of the group; the groups store it under %r"
                      % (fn.split("::")[-1], seen_ns, cw4c[want]), sample={"namespace": seen_ns})
    # member_key length prefix
    # the raw-key builder, wherever it lives in the cw4 package: by name, else by role (a function returning bytes that
    # mentions MEMBERS_KEY)
    cands = sorted(b.path for b in ctx.facts.bodies.values() if b.crate == "cw4" and b.kind == "fn" and b.path.endswith("::member_key"))
    if not cands:
        import json as _json
        for d in ctx.facts.crates["cw4"]["bodies"]:
            if d["kind"] == "fn" and d["locals"] and d["locals"][0]["ty"] == "std::vec::Vec<u8>" and "MEMBERS_KEY" in _json.dumps(d["blocks"]):
                cands.append(d["path"])
    mk = cands[0] if cands else None
    if ctx.ob("R09.5", "anchor:member_key", mk is not None, trivial=True, detail="cw4 raw member-key builder not found"):
        ps = ctx.summarise(mk)
        good = False
        why = "member_key does not build [0, len(MEMBERS_KEY)] ++ MEMBERS_KEY ++ address"
        for p in ps:
            lits = [x for x in walk(p.ret) if x[0] == "lit" and isinstance(x[1], int)]
            casts = [x for x in walk(p.ret) if x[0] == "cast"]
            L = len(cw4c["MEMBERS_KEY"].encode()) if cw4c["MEMBERS_KEY"] else None
            if L is not None and any(x[1] == L for x in lits) and not casts and L < 256:
                good = True
            elif casts:
                why = "length prefix is a narrowing cast that was not folded to the exact length: %s" % show(casts[0])[:120]
        ctx.ob("R09.5", "member_key length prefix", good, detail=why, sample={"len": len(cw4c["MEMBERS_KEY"] or "")})


def _dp(ctx, pretty):
    for c, d in ctx.facts.crates.items():
        for b in d["bodies"]:
            if b["path"] == pretty:
                return b["dp"]
    return None
