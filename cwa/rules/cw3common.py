"""shared recognisers for the cw3 multisigs"""
from ..engine import show
from ..idioms import storage_items, loaded_from, walk, update_base, field_of, possible_variants

SENDER = ("field", ("param", "info"), "sender")
BLOCK = ("field", ("param", "env"), "block")
HEIGHT = ("field", BLOCK, "height")
CS = "cw3::proposal::Proposal::current_status"
IS_PASSED = "cw3::proposal::Proposal::is_passed"
IS_REJECTED = "cw3::proposal::Proposal::is_rejected"
VOTES_NEEDED = "cw3::proposal::votes_needed"
AUTHORIZE = "cw3_flex_multisig::state::Config::authorize"
IS_EXPIRED = "cw_utils::Expiration::is_expired"
STATUS = "cw3::query::Status"
VOTE = "cw3::msg::Vote"

CONTRACTS = ("cw3_fixed_multisig", "cw3_flex_multisig")


def status(v):
    return ("variant", STATUS, v, ())


def items(ctx):
    f = storage_items(ctx.engine, "cw3_fixed_multisig")
    x = storage_items(ctx.engine, "cw3_flex_multisig")
    return {"fixed_config": f.get("config"), "count": f.get("proposal_count"), "ballots": f.get("votes"),
            "proposals": f.get("proposals"), "voters": f.get("voters"), "flex_config": x.get("config")}


def cs_call(t):
    """t == current_status(X, env.block) -> X"""
    if isinstance(t, tuple) and t and t[0] == "call" and t[1] == CS and len(t[2]) == 2 and t[2][1] == BLOCK:
        return t[2][0]
    return None


def exec_paths(ctx, crate, opaque=(CS,)):
    from ..idioms import entry_points, dispatch
    key = ("cw3exec", crate, tuple(opaque))
    if key not in ctx.cache:
        eps = entry_points(ctx.facts, crate)
        ctx.cache[key] = dispatch(ctx.summarise(eps["execute"], opaque=set(opaque)))
    return ctx.cache[key]


def is_expired_cond(p, expires, pol, before=None):
    for c in p.conds:
        if before is not None and c[3] > before:
            continue
        if c[0][0] == "call" and c[0][1] == IS_EXPIRED and c[0][2] == (expires, BLOCK) and c[1] is pol:
            return True
    return False


def cs_term(base):
    return ("call", CS, (base, BLOCK))


def cs_is_passed(ctx, p, base, before=None):
    """the path decided current_status(base, env.block) == Passed (==, match, matches!, ensure! ...)"""
    return possible_variants(ctx, p, cs_term(base), STATUS, before) == {"Passed"}


def cs_not_passed(ctx, p, base, before=None):
    pv = possible_variants(ctx, p, cs_term(base), STATUS, before)
    return pv is not None and "Passed" not in pv


def stored_status_in(ctx, p, base, allowed, before=None):
    """the path decided that the stored status of `base` lies within `allowed`"""
    pv = possible_variants(ctx, p, ("field", base, "status"), STATUS, before)
    return pv is not None and pv <= set(allowed)


def marker_one_shot(p, item_excluded, pid, before=None):
    """the path is made unrepeatable by a marker cell of its own: it decided some storage cell keyed by the proposal id absent and
    saves it (a `closed` set), or decided it present and removes it (an escrow ledger consumed by the call) - the second call with
    the same id fails that decision.  Returns the marker item or None."""
    for c in p.conds:
        if before is not None and c[3] > before:
            continue
        t, o = c[0], c[1]
        item = key = present = None
        if t[0] == "has" and isinstance(o, bool):
            item, key, present = t[1], t[2], o
        elif t[0] == "vfield" and t[2] == "Ok" and t[1][0] == "may_load" and o in ("Some", "None"):
            item, key, present = t[1][1], t[1][2], o == "Some"
        if item is None or item == item_excluded or key != pid:
            continue
        for e in p.effects:
            if e.kind == "write" and e.item == item and e.key == pid and ((e.op == "remove") == present):
                return item
    return None


def close_admission(ctx, p, base, item, pid, before=None):
    """(stored status admits Close, how): the stored status is Pending / Open - writing Rejected then makes the call unrepeatable by
    itself - or it may also be Rejected (a proposal voted down earlier) when a marker cell makes the call one-shot instead"""
    if stored_status_in(ctx, p, base, ("Pending", "Open"), before=before):
        return True, "status"
    if stored_status_in(ctx, p, base, ("Pending", "Open", "Rejected"), before=before) and marker_one_shot(p, item, pid, before) is not None:
        return True, "marker"
    return False, None
