"""shared recognisers for the cw3 multisigs"""
from ..engine import show
from ..idioms import storage_items, loaded_from, walk, update_base, field_of, possible_variants

SENDER = ("field", ("param", "info"), "sender")
BLOCK = ("field", ("param", "env"), "block")
HEIGHT = ("field", BLOCK, "height")
CS = "cw3::proposal::Proposal::current_status"
IS_PASSED = "cw3::proposal::Proposal::is_passed"
IS_REJECTED = "cw3::proposal::Proposal::is_rejected"
VOTES_NEEDED = "cw3::proposal::votes_needed"
AUTHORIZE = "cw3_flex_multisig::state::Config::authorize"
IS_EXPIRED = "cw_utils::Expiration::is_expired"
STATUS = "cw3::query::Status"
VOTE = "cw3::msg::Vote"

CONTRACTS = ("cw3_fixed_multisig", "cw3_flex_multisig")


def status(v):
    return ("variant", STATUS, v, ())


def items(ctx):
    f = storage_items(ctx.engine, "cw3_fixed_multisig")
    x = storage_items(ctx.engine, "cw3_flex_multisig")
    return {"fixed_config": f.get("config"), "count": f.get("proposal_count"), "ballots": f.get("votes"),
            "proposals": f.get("proposals"), "voters": f.get("voters"), "flex_config": x.get("config")}


def cs_call(t):
    """t == current_status(X, env.block) -> X"""
    if isinstance(t, tuple) and t and t[0] == "call" and t[1] == CS and len(t[2]) == 2 and t[2][1] == BLOCK:
        return t[2][0]
    return None


def exec_paths(ctx, crate, opaque=(CS,)):
    from ..idioms import entry_points, dispatch
    key = ("cw3exec", crate, tuple(opaque))
    if key not in ctx.cache:
        eps = entry_points(ctx.facts, crate)
        ctx.cache[key] = dispatch(ctx.summarise(eps["execute"], opaque=set(opaque)))
    return ctx.cache[key]


def is_expired_cond(p, expires, pol, before=None):
    for c in p.conds:
        if before is not None and c[3] > before:
            continue
        if c[0][0] == "call" and c[0][1] == IS_EXPIRED and c[0][2] == (expires, BLOCK) and c[1] is pol:
            return True
    return False


def cs_term(base):
    return ("call", CS, (base, BLOCK))


def cs_is_passed(ctx, p, base, before=None):
    """the path decided current_status(base, env.block) == Passed (==, match, matches!, ensure! ...)"""
    return possible_variants(ctx, p, cs_term(base), STATUS, before) == {"Passed"}


def cs_not_passed(ctx, p, base, before=None):
    pv = possible_variants(ctx, p, cs_term(base), STATUS, before)
    return pv is not None and "Passed" not in pv


def stored_status_in(ctx, p, base, allowed, before=None):
    """the path decided that the stored status of `base` lies within `allowed`"""
    pv = possible_variants(ctx, p, ("field", base, "status"), STATUS, before)
    return pv is not None and pv <= set(allowed)
