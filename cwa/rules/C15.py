"""C15 - cw3-flex: deposits are taken once and returned at most once, as promised."""
from ..engine import show
from ..idioms import dispatch, entry_points, update_base, loaded_from, field_of, walk, response_entries, possible_variants
from .cw3common import SENDER, BLOCK, CS, AUTHORIZE, STATUS, status, items, cs_call, exec_paths
from .C05 import is_refund

ID = "C15"
CRATE = "cw3_flex_multisig"
CHECK_PAID = "cw3::deposit::DepositInfo::check_native_deposit_paid"
RULES = {
    "R15.1": "a proposal is created only after check_native_deposit_paid(info) = Ok whenever CONFIG.proposal_deposit is set; "
             "that function's native arm is must_pay(info, denom)? == amount else Err, its cw20 arm Ok",
    "R15.2": "the cw20 deposit is pulled by exactly one WasmMsg::Execute{contract: token, funds: [], "
             "TransferFrom{owner: info.sender, recipient: env.contract.address, amount: deposit.amount}}; nothing is pulled for "
             "native deposits; Proposal.deposit is the configured deposit",
    "R15.3": "refunds (BankMsg::Send / cw20 Transfer of the stored deposit amount to the stored proposer) are emitted only in "
             "Execute on the path that writes Executed whenever a deposit is stored, and in Close on the path that writes "
             "Rejected exactly when deposit.refund_failed_proposals is true; no other entry point or variant refunds",
    "R15.5": "at most once (shared with C05 R05.1 / R05.3): the refunding writes cannot be repeated - status := Executed only from "
             "current_status == Passed, status := Rejected only from a stored status that is not Executed / Rejected / Passed, not "
             "passed and expired - so neither Execute nor Close (and hence their refund) can succeed twice on one proposal",
    "R15.7": "the status Close and Execute act on can be computed: is_passed / is_rejected decide on the documented quantities over "
             "the documented bases (shared with C04 R04.4 / R04.5) - a rewritten base that can go below zero aborts every later Close, "
             "Execute and query of the proposal and locks its deposit",
    "R15.6": "the configured deposit is the stored deposit: instantiate stores CONFIG.proposal_deposit = None when the message has "
             "none, else Some(DepositInfo{amount, refund_failed_proposals}) exactly as given (no narrowing, rescaling or "
             "substitution) with the denom validated (native denom unchanged, cw20 address through addr_validate)",
    "R15.4": "recoverability: since Close refuses proposals whose stored status is Rejected, no path other than Close may "
             "persist a status that can evaluate to Rejected (status := current_status(..)) without emitting the refund",
}


def may_be_rejected(ctx, p, st, i):
    """the computed status stored by this write can be Rejected on this path (the path did not decide otherwise before storing it)"""
    pv = possible_variants(ctx, p, st, STATUS, before=i)
    return pv is None or "Rejected" in pv


def run(ctx):
    ctx.rule_texts.update(RULES)
    ctx.assumptions += ["A-ATOMIC", "A-PRIMS: cw_utils::must_pay returns the amount of the single attached coin of that denom or errs",
                        "C05 (lifecycle: Executed / Rejected are written at most once per proposal)"]
    ctx.not_decided += ["bank / cw20 balances themselves (runtime, other contracts)"]
    it = items(ctx)
    if not ctx.ob("R15.1", "anchor:storage namespaces", all(v is not None for v in it.values()), trivial=True,
                  detail="cw3 storage namespaces not found"):
        return
    PROP, CFG = it["proposals"], it["flex_config"]
    check_deposit_as_configured(ctx, CFG)
    groups = exec_paths(ctx, CRATE, opaque=(CS, AUTHORIZE, CHECK_PAID))
    n_create = n_refund = 0
    # Close refuses a stored Rejected when none of its successful paths admits one (a repair may admit it under a one-shot marker:
    # then a voted-down proposal can still be closed and refunded, and persisting Rejected early is harmless)
    close_paths = admits_rejected = 0
    for p in groups.get("Close", []):
        if p.is_err():
            continue
        for i, e in enumerate(p.effects):
            if e.kind == "write" and e.item == PROP and e.op != "remove":
                base, _ = update_base(e.value)
                pv = possible_variants(ctx, p, ("field", base, "status"), STATUS, before=i)
                close_paths += 1
                if pv is None or "Rejected" in pv:
                    admits_rejected += 1
    close_refuses_rejected = close_paths > 0 and admits_rejected == 0
    # a finding is identified by the call site that fails: a new message that reaches the very write of Propose / Vote (a batch form
    # calling the same handler) is the same finding, not another one
    site_owner = {}
    order = sorted(groups.items(), key=lambda x: (str(x[0]) not in ("Propose", "Vote"), str(x[0])))
    for variant, ps in order:
        key = "execute/%s" % variant
        for p in ps:
            if p.is_err():
                continue
            ents = response_entries(p)
            if ents is None:
                ctx.ob("R15.3", key + "/response", None, detail="UNDECIDED: response not built in the handler")
                continue
            pw = [(i, e) for i, e in enumerate(p.effects) if e.kind == "write" and e.item == PROP and e.op != "remove"]
            creating = [(i, e) for i, e in pw if e.value[0] == "struct"]
            stored = None
            for i, e in pw:
                if e.value[0] != "struct":
                    stored, _ = update_base(e.value)
            refunds = [(h, m) for h, m in ents if stored is not None and is_refund(m, stored)]
            # any message paying out that is not a recognised refund of the stored proposal?
            if creating:
                n_create += 1
                i, e = creating[0]
                cfgs = [("vfield", c[0], "Ok", "0") for c in p.conds if c[0][0] == "load" and c[0][1] == CFG and c[1] == "Ok"]
                cfg = cfgs[0] if cfgs else None
                dep = ("field", cfg, "proposal_deposit") if cfg else None
                depc = [c[1] for c in p.conds if c[0] == dep]
                pd = field_of(e.value, "deposit")
                ctx.ob("R15.2", key + "/deposit recorded", pd == dep, sites=[e.site],
                       detail="Proposal.deposit is %s, not CONFIG.proposal_deposit" % show(pd)[:120], sample={"deposit": show(pd)[:120]})
                if depc == ["Some"]:
                    d = ("vfield", dep, "Some", "0")
                    paid = any(c[0][0] == "call" and c[0][1] == CHECK_PAID and c[0][2] == (d, ("param", "info")) and c[1] == "Ok" and c[3] <= i
                               for c in p.conds)
                    ctx.ob("R15.1", key + "/paid before creation", paid, sites=[e.site],
                           detail="proposal created with a configured deposit but without check_native_deposit_paid(info) = Ok before the write",
                           sample={"guard": "check_native_deposit_paid(deposit, info) = Ok"})
                    kind = [c[1] for c in p.conds if c[0] == ("field", d, "denom")]
                    zero = [c[1] for c in p.conds if c[0][0] == "cmp" and c[0][1] == "eq" and ("field", d, "amount") in c[0][2:4]]
                    if kind == ["Cw20"] and zero != [True]:
                        good = len(ents) == 1 and ents[0][0] == "msg" and is_pull(ents[0][1], d)
                        ctx.ob("R15.2", key + "/cw20 pull", good, sites=[e.site],
                               detail="cw20 deposit is not pulled by exactly one TransferFrom{owner: info.sender, recipient: contract, "
                                      "amount: deposit.amount} on the deposit token: %s" % [(h, show(m)[:200]) for h, m in ents],
                               sample={"messages": [show(m)[:200] for _, m in ents]})
                    else:
                        ctx.ob("R15.2", key + "/native: nothing pulled", not ents, sites=[e.site],
                               detail="messages emitted while creating a proposal with a native/zero deposit: %s" % [show(m)[:120] for _, m in ents],
                               sample={"messages": len(ents)})
                else:
                    ctx.ob("R15.2", key + "/no deposit: nothing pulled", not ents, sites=[e.site],
                           detail="messages emitted while creating a proposal without deposit", trivial=True)
            # R15.3
            for i, e in pw:
                if e.value[0] == "struct":
                    continue
                base, fields = update_base(e.value)
                st = fields.get("status")
                depc = [c[1] for c in p.conds if c[0] == ("field", base, "deposit")]
                if st == status("Executed"):
                    want = 1 if depc == ["Some"] else 0
                    n_refund += want
                    ctx.ob("R15.3", key + "/refund on execute", len(refunds) == want and (not refunds or ents.index(refunds[0]) == 0), sites=[e.site],
                           detail="Execute with stored deposit %s emits %d refund message(s) to the proposer (expected %d)" % (depc, len(refunds), want),
                           sample={"refunds": [show(m)[:160] for _, m in refunds]})
                elif st == status("Rejected"):
                    flag = [c[1] for c in p.conds if c[0] == ("field", ("vfield", ("field", base, "deposit"), "Some", "0"), "refund_failed_proposals")]
                    want = 1 if (depc == ["Some"] and flag == [True]) else 0
                    n_refund += want
                    ctx.ob("R15.3", key + "/refund on close", len(refunds) == want, sites=[e.site],
                           detail="Close with stored deposit %s and refund_failed_proposals %s emits %d refund(s) (expected %d)" % (depc, flag, len(refunds), want),
                           sample={"refunds": [show(m)[:160] for _, m in refunds]})
                else:
                    ctx.ob("R15.3", key + "/no refund elsewhere", not refunds, sites=[e.site],
                           detail="refund emitted on a path that neither executes nor closes the proposal")
                    if cs_call(st) is not None and close_refuses_rejected and may_be_rejected(ctx, p, st, i):
                        owner = site_owner.setdefault(tuple(e.site), variant)
                        ctx.ob("R15.4", "cw3_flex_multisig::execute/%s persists a possibly-Rejected status without refund" % owner, False,
                               sites=[e.site],
                               detail="%s stores status := current_status(..), which evaluates to Rejected when the proposal is voted down "
                                      "(or is created already expired); Close refuses proposals whose stored status is Rejected "
                                      "(WrongCloseStatus), so with refund_failed_proposals enabled the deposit can never be reclaimed" % variant)
            for i, e in creating:
                st = field_of(e.value, "status")
                if cs_call(st) is not None and close_refuses_rejected and may_be_rejected(ctx, p, st, i):
                    owner = site_owner.setdefault(tuple(e.site), variant)
                    ctx.ob("R15.4", "cw3_flex_multisig::execute/%s persists a possibly-Rejected status without refund" % owner, False,
                           sites=[e.site],
                           detail="%s stores status := current_status(..) at creation, which is Rejected when `latest` is already expired; "
                                  "Close refuses stored-Rejected proposals, so the deposit just taken can never be reclaimed" % variant)
            if not pw:
                pay = [m for h, m in ents if m[0] == "variant" and m[2] in ("Send", "Execute")]
                ctx.ob("R15.3", key + "/no payout without proposal write", not pay, detail="payout emitted without touching a proposal: %s" % [show(m)[:120] for m in pay], trivial=True)
    ctx.floor("R15.1", "proposal creations", n_create, 2)
    ctx.floor("R15.3", "refund sites", n_refund, 2)
    ctx.ob("R15.4", "Close refuses stored Rejected (premise)", True, trivial=True, sample={"close_refuses_rejected": close_refuses_rejected})
    check_paid_body(ctx)
    check_status_functions(ctx)
    from . import C05
    sub = type(ctx)(ctx.pid, ctx.facts, ctx.engine, ctx.tier, ctx.tree_hash)
    C05.run(sub)
    for k in sub.order:
        o = sub.obs[k]
        if o.rule in ("R05.1", "R05.3") and "cw3_flex_multisig" in o.key and ("Executed write" in o.key or "Rejected write" in o.key):
            ctx.ob("R15.5", o.key, True if o.status == "discharged" else (None if o.status == "undecided" else False),
                   detail="; ".join(o.details), sites=o.sites, sample=o.sample)


def check_status_functions(ctx):
    """R15.7: Close and Execute can hand the deposit back only if the status they compute exists: the threshold decisions are the
    documented ones over the documented bases, in unsigned arithmetic that cannot go below zero (shared with C04 R04.4 / R04.5)"""
    from . import C04
    sub = type(ctx)(ctx.pid, ctx.facts, ctx.engine, ctx.tier, ctx.tree_hash)
    C04.run(sub)
    n = 0
    for k in sub.order:
        o = sub.obs[k]
        if o.rule in ("R04.4", "R04.5") and not o.key.startswith(("anchor", "floor")):
            n += 1
            ctx.ob("R15.7", "%s %s" % (o.rule, o.key), True if o.status == "discharged" else (None if o.status == "undecided" else False),
                   detail="; ".join(o.details), sites=o.sites, sample=o.sample)
    ctx.floor("R15.7", "threshold decisions examined", n, 4)


def is_pull(m, d):
    wm = m
    if not (wm[0] == "variant" and wm[2] == "Execute"):
        return False
    f = dict(wm[3])
    b = f.get("msg")
    if not (b and b[0] == "vfield" and b[2] == "Ok" and b[1][0] == "call" and b[1][1].endswith("to_json_binary")):
        return False
    x = b[1][2][0]
    contract = ("field", ("field", ("param", "env"), "contract"), "address")
    return (f.get("contract_addr") == ("vfield", ("field", d, "denom"), "Cw20", "0") and f.get("funds") == ("list", ())
            and x[0] == "variant" and x[2] == "TransferFrom"
            and dict(x[3]) == {"owner": SENDER, "recipient": contract, "amount": ("field", d, "amount")})


def check_paid_body(ctx):
    b = ctx.facts.bodies.get(CHECK_PAID)
    if not ctx.ob("R15.1", "anchor:check_native_deposit_paid", b is not None, detail="cw3 DepositInfo::check_native_deposit_paid not found", trivial=True):
        return
    ps = ctx.summarise(CHECK_PAID)
    SELF = ("param", "self")
    n = 0
    for p in ps:
        if not p.is_ok():
            continue
        n += 1
        kind = [c[1] for c in p.conds if c[0] == ("field", SELF, "denom")]
        if kind == ["Native"]:
            good = False
            for c in p.conds:
                t = c[0]
                if t[0] == "cmp" and t[1] == "eq" and c[1] is True and ("field", SELF, "amount") in (t[2], t[3]):
                    other = t[3] if t[2] == ("field", SELF, "amount") else t[2]
                    if other[0] == "vfield" and other[2] == "Ok" and other[1][0] == "call" and other[1][1].endswith("must_pay") \
                            and other[1][2] == (("param", "info"), ("vfield", ("field", SELF, "denom"), "Native", "0")):
                        good = True
            ctx.ob("R15.1", "check_native_deposit_paid/native", good, sites=[(b.file, b.line, b.path)],
                   detail="native deposit accepted without must_pay(info, denom)? == amount (conds: %s)" % [(show(c[0])[:100], c[1]) for c in p.conds],
                   sample={"guard": "must_pay(info, denom)? == amount"})
        elif kind == ["Cw20"]:
            ctx.ob("R15.1", "check_native_deposit_paid/cw20", True, trivial=True)
        else:
            ctx.ob("R15.1", "check_native_deposit_paid/?", False, detail="unrecognised Ok case %s" % kind)
    ctx.floor("R15.1", "check_native_deposit_paid Ok cases", n, 2)


def check_deposit_as_configured(ctx, CFG):
    """R15.6: everything else in this property is decided against the stored deposit, so it has to be the configured one"""
    from ..idioms import entry_points, field_of
    from ..engine import NONE
    eps = entry_points(ctx.facts, CRATE)
    n = 0
    if "instantiate" not in eps:
        ctx.ob("R15.6", "anchor:instantiate", False, detail="%s has no instantiate" % CRATE, trivial=True)
        return
    M = ("field", ("param", "msg"), "proposal_deposit")
    U = ("vfield", M, "Some", "0")
    for p in ctx.summarise(eps["instantiate"]):
        if p.is_err():
            continue
        for e in p.effects:
            if not (e.kind == "write" and e.item == CFG and e.op != "remove"):
                continue
            n += 1
            got = field_of(e.value, "proposal_deposit")
            given = [c[1] for c in p.conds if c[0] == M and isinstance(c[1], str)]
            if given == ["None"] or got == NONE:
                good = given == ["None"] and got == NONE
                why = "message deposit %s but stored %s" % (given, show(got)[:120] if got else None)
            else:
                d = got[3][0][1] if got is not None and got[0] == "variant" and got[2] == "Some" else None
                good = False
                why = "stored deposit %s is not Some(DepositInfo{..})" % (show(got)[:160] if got else None)
                if d is not None and d[0] == "struct":
                    f = dict(d[2])
                    dn = f.get("denom")
                    dn_ok = False
                    if dn is not None and dn[0] == "variant" and dn[2] == "Native":
                        dn_ok = dn[3][0][1] == ("vfield", ("field", U, "denom"), "Native", "0")
                    elif dn is not None and dn[0] == "variant" and dn[2] == "Cw20":
                        a = dn[3][0][1]
                        raw = ("vfield", ("field", U, "denom"), "Cw20", "0")
                        dn_ok = a == raw or (a[0] == "vfield" and a[2] == "Ok" and a[1][0] == "call" and a[1][1].endswith("addr_validate")
                                             and a[1][2][-1] == raw)
                    good = (f.get("amount") == ("field", U, "amount") and dn_ok
                            and f.get("refund_failed_proposals") == ("field", U, "refund_failed_proposals"))
                    why = "stored deposit %s is not the message's amount / denom / refund flag" % show(d)[:240]
            ctx.ob("R15.6", "instantiate/deposit stored as configured", good, detail=why, sites=[e.site],
                   sample={"stored": show(got)[:200] if got else None})
    ctx.floor("R15.6", "configuration writes in instantiate", n, 2)
