"""One view of a paginated listing, whatever its spelling.

A listing query is recognised from an Ok-path of the query entry point in either of these forms:

  chain form   range(..) [.filter(f)]* .take(n) [.map(g)]* .collect()            (adapters are opaque call terms)
  loop form    for item in range(..)[.filter(f)]*.take(n) { let x = item?; out.push(g(x)) }
               let mut it = range(..); while out.len() < n { let Some(item) = it.next() else break; ..; out.push(..) }
               try_fold / fold over the same iterator with a pushing closure

`extract(p)` returns a Listing with the range term, the page-size term, the adapters between range and take and after
take, and - for the loop form - what this path's iteration did with the element it took (pushed value / skipped).
"""
from ..engine import show
from ..idioms import walk

RANGE_OPS = ("range", "keys", "range_raw", "keys_raw")
RANGE_OWNERS = ("Map", "Prefix", "SnapshotMap", "IndexedMap")


def is_range(x):
    return x[0] == "call" and x[1].split("::")[-1] in RANGE_OPS and x[1].split("::")[0] in RANGE_OWNERS


def is_take(x):
    return x[0] == "call" and x[1].endswith("Iterator::take")


FILTERS = ("Iterator::filter", "Iterator::filter_map", "Iterator::skip_while", "Iterator::skip", "Iterator::step_by",
           "Iterator::take_while", "Iterator::map_while")


def is_filter(x):
    return x[0] == "call" and x[1].endswith(FILTERS)


def loop_effects(p, lk):
    ent = [e for e in p.effects if e.kind == "loop_enter" and e.name == lk]
    stp = [e for e in p.effects if e.kind == "loop_step" and e.name == lk]
    return (ent[0] if ent else None), (stp[0] if stp else None)


def deep_walk(p, t, seen=None):
    """sub-terms of t, looking through loop variables: a loopvar contributes the values every variable of its loop had on
    entry (the iterated collection among them) and the value it was stepped to"""
    seen = set() if seen is None else seen
    for x in walk(t):
        yield x
        if x[0] == "loopvar" and x[1] not in seen:
            seen.add(x[1])
            ent, stp = loop_effects(p, x[1])
            if ent is not None:
                for v in ent.value.values():
                    for y in deep_walk(p, v, seen):
                        yield y
            if stp is not None:
                for v in stp.value.values():
                    for y in deep_walk(p, v, seen):
                        yield y


class Listing(object):
    __slots__ = ("rng", "page", "page_how", "before", "after", "loop", "acc", "took", "pushed", "elem", "maps", "problem")

    def __init__(self):
        self.rng = None        # the range(..) call term
        self.page = None       # page-size term
        self.page_how = None   # 'take' | 'guard'
        self.before = []       # filtering adapters between range and take (inside take's source)
        self.after = []        # filtering adapters applied to the result of take
        self.loop = None       # loop key when the result is accumulated by a loop
        self.acc = None        # name of the accumulator variable
        self.took = False      # this path's iteration took an element from the iterator
        self.pushed = None     # value pushed for that element (None: nothing pushed = the element was skipped)
        self.elem = None       # the element term (payload of next()?Some)
        self.maps = []         # closures of map adapters (chain form)
        self.problem = None


def _acc_loopvars(p, t):
    return [x for x in walk(t) if x[0] == "loopvar"]


def extract(p, ret=None):
    """Listing of an Ok-path, or None when the returned value involves no storage range"""
    ret = p.ret if ret is None else ret
    terms = list(deep_walk(p, ret))
    ranges = []
    for x in terms:
        if is_range(x) and x not in ranges:
            ranges.append(x)
    if not ranges:
        return None
    L = Listing()
    if len(ranges) != 1:
        L.problem = "%d storage ranges feed the answer" % len(ranges)
        L.rng = ranges[0]
        return L
    L.rng = ranges[0]
    takes = []
    for x in terms:
        if is_take(x) and x not in takes and any(y == L.rng for y in walk(x[2][0])):
            takes.append(x)
    filters = []
    for x in terms:
        if is_filter(x) and x not in filters and any(y == L.rng for y in walk(x[2][0])):
            filters.append(x)
    L.maps = [x[2][1] for x in terms if x[0] == "call" and x[1].endswith("Iterator::map") and any(y == L.rng for y in walk(x[2][0]))]
    # accumulating loop: the loop whose entry values mention the range
    for e in p.effects:
        if e.kind == "loop_enter" and any(any(y == L.rng for y in walk(v)) for v in e.value.values()):
            L.loop = e.name
    if L.loop is not None:
        accs = [x for x in _acc_loopvars(p, ret) if x[1] == L.loop]
        if accs:
            L.acc = accs[0][2]
        ent, stp = loop_effects(p, L.loop)
        for c in p.conds:
            t = c[0]
            if t[0] == "calli" and t[1] == "next" and c[1] == "Some" and t[2][0][0] == "loopvar" and t[2][0][1] == L.loop and t[2][0][3] == 0:
                L.took = True
                L.elem = ("vfield", t, "Some", "0")
        if L.took and stp is not None and L.acc in stp.value:
            v = stp.value[L.acc]
            a0 = ("loopvar", L.loop, L.acc, 0)
            if v[0] == "call" and v[1] == "push" and v[2][0] == a0:
                L.pushed = v[2][1]
            elif v == a0:
                L.pushed = None
            else:
                L.problem = "accumulator stepped to %s, which is neither unchanged nor one push" % show(v)[:160]
    if len(takes) > 1:
        L.problem = "%d take() adapters" % len(takes)
    if takes:
        tk = takes[0]
        L.page, L.page_how = tk[2][1], "take"
        for f in filters:
            if any(y == tk for y in walk(f[2][0])):
                L.after.append(f)
            else:
                L.before.append(f)
    else:
        L.before = filters
        # bound by a loop guard `acc.len() < n` on the accumulating loop
        if L.loop is not None and L.acc is not None:
            for c in p.conds:
                t = c[0]
                if t[0] == "cmp" and t[1] == "lt" and t[2][0] == "call" and t[2][1] == "len" and t[2][2][0][0] == "loopvar" \
                        and t[2][2][0][1] == L.loop and t[2][2][0][2] == L.acc:
                    L.page, L.page_how = t[3], "guard"
    return L


# ------------------------------------------------------------------------ page size, decided over the orderings of `limit`
class _Undecided(Exception):
    pass


def _ev(t, lim, v):
    """integer value of term t when the Option<u32> term `lim` is v (None or int)"""
    if t == lim:
        raise _Undecided("option used as number")
    k = t[0]
    if k == "lit" and isinstance(t[1], int) and not isinstance(t[1], bool):
        return t[1]
    if k == "vfield" and t[1] == lim and t[2] == "Some":
        if v is None:
            raise _Undecided("payload of None")
        return v
    if k == "unwrap_or" and t[1] == lim:
        return v if v is not None else _ev(t[2], lim, v)
    if k == "default":
        return 0
    if k == "call" and t[1] in ("min", "max") and len(t[2]) == 2:
        a, b = _ev(t[2][0], lim, v), _ev(t[2][1], lim, v)
        return min(a, b) if t[1] == "min" else max(a, b)
    if k == "cast":
        return _ev(t[3], lim, v)
    if k == "bin" and t[1] in ("add", "sub", "mul"):
        a, b = _ev(t[2], lim, v), _ev(t[3], lim, v)
        return a + b if t[1] == "add" else (a - b if t[1] == "sub" else a * b)
    raise _Undecided("term outside the comparison/min/max fragment: %s" % show(t)[:120])


def _mentions(t, lim):
    return any(x == lim for x in walk(t))


def _cond_holds(c, lim, v):
    """True / False / None (does not concern `limit`)"""
    t, o = c[0], c[1]
    if t == lim and isinstance(o, str):
        return (o == "Some") == (v is not None)
    if t[0] == "is" and t[1] == lim and isinstance(o, bool):
        return ((t[2] == "Some") == (v is not None)) == o
    if not _mentions(t, lim):
        return None
    if t[0] == "cmp" and isinstance(o, bool):
        try:
            a, b = _ev(t[2], lim, v), _ev(t[3], lim, v)
        except _Undecided:
            return None     # compares something else as well (e.g. the accumulator's length with the page size)
        r = {"lt": a < b, "le": a <= b, "eq": a == b}[t[1]]
        return r == o
    return None             # a decision on a larger term that merely contains the limit (collect(..) => Ok)


def page_size_problem(p, page, lim, default=10, maximum=30):
    """None when, for every value of `limit` that is consistent with the decisions of path p, the page-size term equals
    min(limit.unwrap_or(default), maximum).  `limit` is touched only through comparisons with literals, min/max and
    unwrap_or, so one representative per ordering against those literals decides all values."""
    lits = {default, maximum, 0, 1, 2 ** 32 - 1}
    for c in p.conds:
        for x in walk(c[0]):
            if x[0] == "lit" and isinstance(x[1], int) and not isinstance(x[1], bool) and 0 <= x[1] < 2 ** 32:
                lits.add(x[1])
    for x in walk(page):
        if x[0] == "lit" and isinstance(x[1], int) and not isinstance(x[1], bool) and 0 <= x[1] < 2 ** 32:
            lits.add(x[1])
    reps = {None}
    for l in lits:
        for d in (-1, 0, 1):
            if 0 <= l + d < 2 ** 32:
                reps.add(l + d)
    n = 0
    try:
        for v in sorted(reps, key=lambda x: -1 if x is None else x):
            ok = True
            for c in p.conds:
                h = _cond_holds(c, lim, v)
                if h is False:
                    ok = False
                    break
            if not ok:
                continue
            n += 1
            got = _ev(page, lim, v)
            want = min(v if v is not None else default, maximum)
            if got != want:
                return "page size is %s for limit=%s (expected %d): %s" % (got, v, want, show(page)[:120])
    except _Undecided as e:
        return "UNDECIDED page size: %s" % e
    if n == 0:
        return None     # infeasible combination of limit decisions: nothing to answer for
    return None
