"""C11 - cw20-ics20: escrow always covers outstanding vouchers, channel by channel."""
from ..engine import show, OPTION
from ..idioms import dispatch, entry_points, loaded_from, nf, walk, response_entries, NF, update_base, field_of, decided_ints
from .icscommon import CRATE, SENDER, items, ack_kind, state_delta, payout_parts, denom_kind, token_matches

ID = "C11"
RULES = {
    "R11.1": "payout <= reduction: every emitted payout (bank send / cw20 transfer of amount A in denom D to the receiver or "
             "original sender) is on a path that earlier reduced CHANNEL_STATE[(C, D)].outstanding by exactly A, with the "
             "identical D and A, and C the packet's own channel (dest.channel_id on receive; src.channel_id for our own "
             "failed / timed-out packet)",
    "R11.2": "reduce is checked: the reduction updates an existing entry only (absent => Err), subtracts with an exact checked "
             "subtraction that errs on underflow, and leaves total_sent untouched",
    "R11.3": "escrow on the way in: outstanding is increased only by execute Transfer / Receive with the amount and denom of the "
             "funds actually attached (one_coin(info) for native; the cw20 callback's wrapper.amount with the token address "
             "info.sender), after the channel-exists guard, under key (msg.channel, denom); and by the reply undo of R11.4",
    "R11.4": "undo exactly for the failed payout: the only other increase is in `reply` on (id = RECEIVE_ID, result = Err), by "
             "the three fields of the stored REPLY_ARGS, which the receive path saved as exactly the (C, D, A) of its "
             "reduction; the receive payout is SubMsg::reply_on_error(.., RECEIVE_ID) with that same id; total_sent untouched",
    "R11.6": "the undo id is exclusive: no payout outside ibc_packet_receive (refunds on error-ack / timeout) is dispatched with a "
             "reply id on which `reply` performs the undo - otherwise a failing refund replays the REPLY_ARGS left by an earlier, "
             "unrelated receive and raises the outstanding balance of a channel nothing was escrowed on",
    "R11.7": "upgrade path (shared with C12 R12.7): migrate reconciles the channel balances exactly for the releases that did not keep "
             "them (stored version <= 0.13.0) and never for later ones - re-running it books tokens the contract merely holds as "
             "escrow of a channel, which that channel's counterparty can then redeem",
    "R11.5": "voucher prefix: on receive the local denom is the third '/'-segment of the packet denom only on paths that decided "
             "segments == 3, segment0 == packet.src.port_id and segment1 == packet.src.channel_id",
}


def run(ctx):
    ctx.rule_texts.update(RULES)
    ctx.assumptions += ["A-PRIMS", "A-ATOMIC", "reply is invoked by the chain with the id of the failed sub-message"]
    ctx.not_decided += ["actual token holdings of the contract", "counterparty behaviour and relayer ordering (the step is "
                        "order-independent by construction, which is what the rules establish)",
                        "the v2 migration's reconciliation writes (runtime balances)"]
    it = items(ctx)
    if not ctx.ob("R11.1", "anchor:storage namespaces", all(v is not None for v in it.values()), trivial=True,
                  detail="ics20 storage namespaces not found"):
        return
    STATE, REPLY, CHINFO = it["state"], it["reply"], it["chan_info"]
    eps = entry_points(ctx.facts, CRATE)
    n_pay = n_inc = 0
    other_ids = []
    recv_id = None
    saved_args = []
    chan_of = {"ibc_packet_receive": ("field", ("field", ("field", ("param", "msg"), "packet"), "dest"), "channel_id"),
               "ibc_packet_timeout": ("field", ("field", ("field", ("param", "msg"), "packet"), "src"), "channel_id"),
               "ibc_packet_ack": ("field", ("field", ("field", ("param", "msg"), "original_packet"), "src"), "channel_id")}
    for ename, fn in sorted(eps.items()):
        if ename in ("query", "instantiate", "migrate"):
            continue        # migrate: the v2 reconciliation against live balances is not decided (runtime values)
        paths = ctx.summarise(fn)
        groups = dispatch(paths) if ename == "execute" else {None: paths}
        for variant, ps in sorted(groups.items(), key=lambda x: str(x[0])):
            key = "%s/%s" % (ename, variant)
            for p in ps:
                if p.is_err():
                    continue
                r = p.ok_value()
                ents = list(r[2]) if r[0] == "resp" else None
                if ents is None:
                    if not any(x[0] == "variant" and x[2] in ("Send", "Execute", "SendPacket") for x in walk(r)):
                        ents = []           # opaque response of a controller primitive / no response: carries no payout
                    else:
                        ctx.ob("R11.1", key + "/response", None, detail="UNDECIDED: response %s" % show(r)[:120])
                        continue
                sw = [(i, e, state_delta(e, p)) for i, e in enumerate(p.effects) if e.kind == "write" and e.item == STATE]
                pays = []
                for h, m in ents:
                    if h in ("submsg", "msg"):
                        pp = payout_parts(m) if h == "submsg" else None
                        if pp is not None:
                            pays.append((pp, m))
                        elif m[0] == "variant" and m[2] in ("Send", "Execute") or (h == "submsg"):
                            ctx.ob("R11.1", key + "/unrecognised payout", None, detail="UNDECIDED: cannot analyse message %s" % show(m)[:200])
                # ---- reductions and their payouts
                for pp, m in pays:
                    n_pay += 1
                    prob = None
                    red = [(i, e, d) for i, e, d in sw if d[0] is not None and any(c < 0 for c in d[0].atoms.values())]
                    if len(red) != 1:
                        prob = "payout on a path with %d balance reductions" % len(red)
                    else:
                        i, e, (o, t, kind) = red[0]
                        A = pp["amount"]
                        if o.atoms != {A: -1} or o.const:
                            prob = "outstanding reduced by %s but %s is paid out" % (o.show(), show(A)[:100])
                        else:
                            C, D = e.key[1] if e.key[0] == "tuple" and len(e.key[1]) == 2 else (None, None)
                            wantC = chan_of.get(ename)
                            if ename in chan_of and C != wantC:
                                prob = "reduction on channel %s, not the packet's own channel %s" % (show(C)[:100], show(wantC)[:100])
                            elif pp["kind"] == "native":
                                nat = denom_kind(p, D)[0] == "native"
                                if pp["denom"] != D or not nat:
                                    prob = "native payout of denom %s but the reduction was on %s (native decision: %s)" % (show(pp["denom"])[:80], show(D)[:80], nat)
                            else:
                                dk, how = denom_kind(p, D)
                                tok = pp["token"]
                                if not (dk == "cw20" and token_matches(tok, how, D)):
                                    prob = "cw20 payout from token %s is not the token named by the reduced denom %s" % (show(tok)[:100], show(D)[:80])
                    if prob is None and ename == "ibc_packet_receive":
                        if pp["how"] != "reply_on_error" or pp["reply_id"] is None:
                            prob = "receive payout is dispatched with SubMsg::%s: a failing payout would not be undone" % pp["how"]
                        else:
                            recv_id = pp["reply_id"]
                    if ename != "ibc_packet_receive":
                        other_ids.append((key, pp["reply_id"], [e.site for _, e, _ in sw]))
                    ctx.ob("R11.1", key + "/payout of %s" % pp["kind"], prob is None, detail=prob, sites=[e.site for _, e, _ in sw],
                           sample={"payout": {k: (show(v)[:80] if isinstance(v, tuple) else v) for k, v in pp.items()}})
                # ---- every state write
                for i, e, (o, t, kind) in sw:
                    if o is None:
                        ctx.ob("R11.2", key + "/state write in %s" % e.site[2].split("::")[-1], False, detail=kind, sites=[e.site])
                        continue
                    neg = any(c < 0 for c in o.atoms.values())
                    pos = any(c > 0 for c in o.atoms.values())
                    if neg:
                        good = kind == "present" and not t.atoms and not pos and any(c[0] == e.old and c[1] == "Some" for c in p.conds)
                        ctx.ob("R11.2", key + "/reduction in %s" % e.site[2].split("::")[-1], good, sites=[e.site],
                               detail="reduction is not (existing entry only, checked subtraction, total_sent untouched): outstanding %s total_sent %s entry %s"
                                      % (o.show(), t.show(), kind), sample={"outstanding": o.show()})
                        if ename == "ibc_packet_receive":
                            check_prefix(ctx, p, key, i, e)
                            ra = [x for x in p.effects if x.kind == "write" and x.item == REPLY]
                            good = len(ra) == 1 and ra[0].value[0] == "struct"
                            if good:
                                f = dict(ra[0].value[2])
                                A = [a for a, c in o.atoms.items() if c < 0][0]
                                good = e.key == ("tuple", (f.get("channel"), f.get("denom"))) and f.get("amount") == A
                                saved_args.append(True)
                            ctx.ob("R11.4", key + "/REPLY_ARGS = the reduction", good, sites=[x.site for x in ra],
                                   detail="REPLY_ARGS saved %s does not record the (channel, denom, amount) of the reduction %s"
                                          % ([show(x.value)[:160] for x in ra], show(e.key)[:120]), sample={"reply_args": show(ra[0].value)[:200] if ra else None})
                    elif pos:
                        n_inc += 1
                        if ename == "execute" and variant in ("Transfer", "Receive"):
                            check_escrow(ctx, p, key, variant, i, e, o, t, CHINFO)
                        elif ename == "reply":
                            check_undo(ctx, p, key, e, o, t, REPLY)
                        elif ename == "migrate":
                            ctx.ob("R11.3", key + "/migration reconciliation (not decided)", True, trivial=True)
                        else:
                            ctx.ob("R11.3", key + "/unexpected increase", False, sites=[e.site],
                                   detail="outstanding increased by %s outside transfer / reply-undo" % o.show())
    ctx.floor("R11.1", "payout sites", n_pay, 3)
    ctx.floor("R11.3", "escrow increases", n_inc, 3)
    ctx.floor("R11.4", "receive paths saving REPLY_ARGS", len(saved_args), 1)
    # R11.7 = C12 R12.7: a migrate that books live holdings as escrow for a release that already keeps its balances (or skips the
    # reconciliation for one that does not) leaves outstanding balances that no transfer on that channel escrowed
    from . import C12
    sub = type(ctx)(ctx.pid, ctx.facts, ctx.engine, ctx.tier, ctx.tree_hash)
    C12.check_migrate_gate(sub, eps)
    for k in sub.order:
        o = sub.obs[k]
        if o.rule == "R12.7" and not o.key.startswith(("anchor", "floor")):
            ctx.ob("R11.7", o.key, True if o.status == "discharged" else (None if o.status == "undecided" else False),
                   detail="; ".join(o.details), sites=o.sites, sample=o.sample)
    # reply id agreement
    undo_ids = ctx.cache.get("undo_ids", set())
    for key, rid, sites in other_ids:
        clash = rid is not None and rid[0] == "lit" and rid[1] in undo_ids
        ctx.ob("R11.6", key + "/refund reply id is not an undo id", not clash, sites=sites,
               detail="the refund sub-message replies with id %s, on which reply() adds REPLY_ARGS.amount back to "
                      "(REPLY_ARGS.channel, REPLY_ARGS.denom): a failed refund replays the stale arguments of an earlier receive"
                      % (show(rid) if rid else None), sample={"reply_id": show(rid) if rid else None})
    ctx.ob("R11.4", "reply id of the receive payout = id undone in reply", recv_id is not None and recv_id[0] == "lit" and recv_id[1] in undo_ids,
           detail="receive payout replies with id %s but reply() undoes on ids %s" % (show(recv_id) if recv_id else None, sorted(undo_ids)),
           sample={"id": show(recv_id) if recv_id else None})


def check_prefix(ctx, p, key, i, e):
    D = e.key[1][1]
    good = False
    why = "local denom %s is not the third segment of the packet denom" % show(D)[:120]
    src = ("field", ("field", ("param", "msg"), "packet"), "src")

    def eq_true(x, y):
        return any(c[0][0] == "cmp" and c[0][1] == "eq" and set((c[0][2], c[0][3])) == set((x, y)) and c[1] is True and c[3] <= i for c in p.conds)
    if D[0] == "index" and D[2] == ("lit", 2):
        # collected form: parts = denom.splitn(3, '/').collect(); parts.len() == 3; parts[0], parts[1], parts[2]
        segs = D[1]

        def seg(n):
            return ("index", segs, ("lit", n))
        c3 = eq_true(("call", "len", (segs,)), ("lit", 3))
        cp = eq_true(seg(0), ("field", src, "port_id"))
        cc = eq_true(seg(1), ("field", src, "channel_id"))
        good = c3 and cp and cc
        why = "voucher accepted without all prefix decisions (3 segments: %s, port == packet.src.port_id: %s, channel == packet.src.channel_id: %s)" % (c3, cp, cc)
    elif D[0] == "field" and D[2] == "1" and D[1][0] == "vfield" and D[1][2] == "Some" and D[1][1][0] == "call" \
            and D[1][1][1].endswith("split_once"):
        # split_once form: (port, rest) = denom.split_once('/'); (channel, local) = rest.split_once('/')
        inner = D[1][1]                      # split_once(rest, '/')
        rest = inner[2][0]
        if rest[0] == "field" and rest[2] == "1" and rest[1][0] == "vfield" and rest[1][2] == "Some" and rest[1][1][0] == "call" \
                and rest[1][1][1].endswith("split_once") and inner[2][1] == ("lit", "/") and rest[1][1][2][1] == ("lit", "/"):
            outer = rest[1][1]               # split_once(denom, '/')
            s0 = ("field", ("vfield", outer, "Some", "0"), "0")
            s1 = ("field", ("vfield", inner, "Some", "0"), "0")
            cp = eq_true(s0, ("field", src, "port_id"))
            cc = eq_true(s1, ("field", src, "channel_id"))
            good = cp and cc
            why = "voucher accepted without all prefix decisions (port == packet.src.port_id: %s, channel == packet.src.channel_id: %s)" % (cp, cc)
    elif D[0] == "vfield" and D[2] == "Some" and D[1][0] == "calli" and D[1][1] == "next":
        # streamed form: it = denom.splitn(3, '/'); it.next(), it.next(), it.next() all Some
        it2 = D[1][2][0]
        if it2[0] == "call" and it2[1] == "advance" and it2[2][0][0] == "call" and it2[2][0][1] == "advance":
            it0 = it2[2][0][2][0]
            it1 = it2[2][0]
            split3 = it0[0] == "call" and it0[1].endswith("splitn") and len(it0[2]) == 3 and it0[2][1] == ("lit", 3) and it0[2][2] == ("lit", "/")

            def seg_of(itk):
                for c in p.conds:
                    if c[0][0] == "calli" and c[0][1] == "next" and c[0][2][0] == itk and c[1] == "Some" and c[3] <= i:
                        return ("vfield", c[0], "Some", "0")
                return None
            s0, s1 = seg_of(it0), seg_of(it1)
            cp = s0 is not None and eq_true(s0, ("field", src, "port_id"))
            cc = s1 is not None and eq_true(s1, ("field", src, "channel_id"))
            good = split3 and cp and cc
            why = "voucher accepted without all prefix decisions (splitn(3, '/'): %s, port == packet.src.port_id: %s, channel == packet.src.channel_id: %s)" % (split3, cp, cc)
    ctx.ob("R11.5", key + "/voucher prefix", good, detail=why, sites=[e.site], sample={"denom": show(D)[:160]})


def check_escrow(ctx, p, key, variant, i, e, o, t, CHINFO):
    prob = None
    if t.atoms != o.atoms:
        prob = "outstanding %s and total_sent %s differ" % (o.show(), t.show())
    A = list(o.atoms.keys())[0] if len(o.atoms) == 1 else None
    C, D = e.key[1] if e.key[0] == "tuple" else (None, None)
    if prob is None:
        if variant == "Transfer":
            coin = ("vfield", ("call", "cw_utils::one_coin", (("param", "info"),)), "Ok", "0")
            tm = ("vfield", ("param", "msg"), "Transfer", "0")
            if A != ("field", coin, "amount") or D != ("field", coin, "denom"):
                prob = "escrow credited (%s, %s) is not the single coin attached to the call" % (show(A)[:80], show(D)[:80])
        else:
            w = ("vfield", ("param", "msg"), "Receive", "0")
            tm = None
            for c in p.conds:
                if c[0][0] == "call" and c[0][1].endswith("from_json") and c[1] == "Ok":
                    tm = ("vfield", c[0], "Ok", "0")
            if A != ("field", w, "amount"):
                prob = "escrow amount %s is not the cw20 callback's amount" % show(A)[:80]
            elif not (any(x == SENDER for x in walk(D)) and any(isinstance(x, tuple) and x[0] == "unknown" and "cw20:" in str(x) for x in walk(D))):
                prob = "escrow denom %s is not cw20:<info.sender> (the token contract that called back)" % show(D)[:120]
            elif not any(c[0][0] == "call" and c[0][1].endswith("nonpayable") and c[1] == "Ok" for c in p.conds):
                prob = "cw20 callback accepted with native funds attached"
        if prob is None:
            chan = ("field", tm, "channel")
            if C != chan:
                prob = "escrow credited to channel %s, not the requested one" % show(C)[:80]
            elif not any(c[0][0] == "has" and c[0][1] == CHINFO and c[0][2] == chan and c[1] is True and c[3] <= i for c in p.conds):
                prob = "escrow credited without the channel-exists guard"
    ctx.ob("R11.3", key + "/escrow", prob is None, detail=prob, sites=[e.site], sample={"amount": show(A)[:80], "denom": show(D)[:80]})


def check_undo(ctx, p, key, e, o, t, REPLY):
    ids = decided_ints(p.conds, ("field", ("param", "reply"), "id"), before=p.effects.index(e))
    res = [c[1] for c in p.conds if c[0] == ("field", ("param", "reply"), "result")]
    ra = None
    for c in p.conds:
        if c[0][0] == "load" and c[0][1] == REPLY and c[1] == "Ok":
            ra = ("vfield", c[0], "Ok", "0")
    ids = sorted(set(ids))
    good = ra is not None and res == ["Err"] and len(ids) == 1 and \
        e.key == ("tuple", (("field", ra, "channel"), ("field", ra, "denom"))) and o.atoms == {("field", ra, "amount"): 1} and not t.atoms
    if good:
        ctx.cache.setdefault("undo_ids", set()).add(ids[0])
    ctx.ob("R11.4", key + "/undo", good, sites=[e.site],
           detail="reply increases outstanding by %s (total_sent %s) at %s on id %s result %s; expected +REPLY_ARGS.amount at "
                  "(REPLY_ARGS.channel, REPLY_ARGS.denom) only on (RECEIVE_ID, Err)" % (o.show(), t.show(), show(e.key)[:120], ids, res),
           sample={"undo": o.show()})
