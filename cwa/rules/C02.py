"""C02 - cw20: balances move only by the holder or within a valid allowance."""
from ..engine import show, RESULT
from ..idioms import (cell_delta, dispatch, entry_points, field_of, inexact_ops, loaded_from, nf, storage_items,
                      update_base, walk, NF, response_entries, order_facts, stored_entry)
from ..prims import is_rmw

ID = "C02"
CRATE = "cw20_base"
SENDER = ("field", ("param", "info"), "sender")
BLOCK = ("field", ("param", "env"), "block")

RULES = {
    "R02.1": "debit authority: every negative BALANCES delta at key K on an Ok-path has K = info.sender, or is preceded on "
             "the same path by a draw on ALLOWANCES[(K, info.sender)] of the identical amount term",
    "R02.2": "draw form: the draw is an update whose Ok outcome requires the entry present and "
             "is_expired(entry.expires, env.block) = false, stores entry{allowance: allowance - amount} with an exact "
             "checked subtraction, leaves `expires` untouched, and precedes every balance movement",
    "R02.3": "allowance authority: writes to the allowance maps keyed (info.sender, x) may raise, lower or re-date; writes "
             "keyed (x, info.sender) may only be draws on paths that debit x by the same term; no other key shape; "
             "self-allowance and already-expired new expiry are rejected",
    "R02.4": "decrease saturates: DecreaseAllowance either subtracts exactly on a path whose condition implies "
             "amount < / <= allowance, or removes the entry; it has no Ok-path of another kind",
    "R02.6": "one allowance, two views (shared with C19 R19.1 / R19.2): every write of an allowance is paired with the same write at "
             "the swapped key of the other map, each computed from its own stored entry",
    "R02.5": "notification: Ok-paths of Send/SendFrom emit exactly one message WasmMsg::Execute{contract_addr: <contract>, "
             "msg: to_json_binary(Receive(Cw20ReceiveMsg{sender: info.sender, amount: <moved amount>, msg: <payload>})), "
             "funds: []}; all other variants emit nothing",
}

IS_EXPIRED = ("cw_utils::Expiration::is_expired",)


def neg_atoms(n):
    return {a: c for a, c in n.atoms.items() if c < 0}


def is_pair(k):
    return isinstance(k, tuple) and k and k[0] == "tuple" and len(k[1]) == 2


def run(ctx):
    eng = ctx.engine
    ctx.rule_texts.update(RULES)
    ctx.assumptions += ["A-ATOMIC", "A-PRIMS (Map::update = read, apply closure, write iff Ok)",
                        "Expiration::is_expired(block) is an opaque predicate of (expiry, block)"]
    ctx.not_decided += ["semantics of Expiration::is_expired and of block height/time ordering",
                        "the cumulative bound over a history (follows by induction from R02.1-R02.3; the step is decided, not the sum)"]
    items = storage_items(eng, CRATE)
    BAL, ALW, ALWS = items.get("balance"), items.get("allowance"), items.get("allowance_spender")
    ok = ctx.ob("R02.1", "anchor:storage namespaces", None not in (BAL, ALW, ALWS),
                detail="storage namespaces balance/allowance/allowance_spender not found", trivial=True)
    if not ok:
        return
    eps = entry_points(ctx.facts, CRATE)
    n_debits = set()
    n_draws = set()
    n_emit = 0
    allgroups = []
    for ename, fn in sorted(eps.items()):
        if ename == "query":
            continue
        ps_ = ctx.summarise(fn)
        if ename == "instantiate":
            continue          # creation of balances: no previous holder to protect (genesis is C01 R01.5)
        g = dispatch(ps_) if ename == "execute" else {None: ps_}
        for variant, ps in sorted(g.items(), key=lambda x: str(x[0])):
            allgroups.append((ename, variant, ps))
    for ename, variant, ps in allgroups:
        for p in ps:
            if p.is_err():
                continue
            key = "%s/%s" % (ename, variant)
            effs = p.effects
            writes = [(i, e) for i, e in enumerate(effs) if e.kind == "write"]
            balw = [(i, e, cell_delta(e, path=p)) for i, e in writes if e.item == BAL]
            alww = [(i, e) for i, e in writes if e.item == ALW]
            first_bal = min([i for i, _, _ in balw]) if balw else None
            # ---- classify allowance writes
            draws = []
            for i, e in alww:
                k = e.key
                site = e.site
                if not is_pair(k):
                    ctx.ob("R02.3", key + "/key-shape", False, detail="allowance key is not an (owner, spender) pair: %s" % show(k), sites=[site])
                    continue
                owner, spender = k[1]
                if owner == SENDER:
                    # owner-side change: raise / lower / re-date / remove  (R02.3, guards below)
                    selfguard = any(c[0][0] == "cmp" and c[0][1] == "eq" and set((c[0][2], c[0][3])) == set((SENDER, spender))
                                    and c[1] is False and c[3] <= i for c in p.conds)
                    ctx.ob("R02.3", key + "/owner-side write in %s" % site[2], selfguard, sites=[site],
                           detail="owner-side allowance write not guarded by spender != info.sender",
                           sample={"key": show(k), "op": e.op})
                    if e.op in ("save", "update"):
                        exp_new = field_of(e.value, "expires")
                        base, fields = update_base(e.value) if e.value[0] == "update" else (e.value, {})
                        if "expires" in fields:
                            newexp = fields["expires"]
                            g = any(c[0][0] == "call" and c[0][1] in IS_EXPIRED and c[0][2][0] == newexp and c[1] is False
                                    and c[3] <= i for c in p.conds)
                            ctx.ob("R02.3", key + "/new expiry not in the past in %s" % site[2], g, sites=[site],
                                   detail="allowance re-dated to %s without is_expired(new, env.block) = false guard" % show(newexp))
                elif spender == SENDER:
                    draws.append((i, e, owner))
                else:
                    ctx.ob("R02.3", key + "/foreign-key write in %s" % site[2], False, sites=[site],
                           detail="allowance written at key %s which involves info.sender neither as owner nor as spender" % show(k))
            # ---- draws must have the canonical form (R02.2) and be paired with a debit of the owner
            draw_ok = {}
            for i, e, owner in draws:
                n_draws.add((ename, variant))
                prob = check_draw(p, i, e)
                d = None
                if prob is None:
                    d = cell_delta(e, field="allowance", path=p)
                    if d.nf is None:
                        prob = d.problem
                    elif d.nf.inexact or inexact_ops(e.value):
                        prob = "inexact subtraction in draw"
                if prob is None and first_bal is not None and i > first_bal:
                    prob = "allowance drawn after a balance already moved"
                ctx.ob("R02.2", key + "/draw in %s" % e.site[2], prob is None, detail=prob, sites=[e.site],
                       sample={"draw": show(e.value)[:300]})
                if prob is None:
                    draw_ok[owner] = d.nf
                # the draw must be accompanied by a debit of the same owner by the same term
                deb = [dl for _, be, dl in balw if be.key == owner and dl.nf is not None and dl.nf == d.nf] if d and d.nf else []
                ctx.ob("R02.3", key + "/draw paired with debit in %s" % e.site[2], bool(deb), sites=[e.site],
                       detail="allowance of %s drawn (%s) without an equal debit of that owner's balance" % (show(owner), d.nf.show() if d and d.nf else "?"))
            # ---- debit authority
            for i, e, dl in balw:
                if dl.nf is None:
                    ctx.ob("R02.1", key + "/debit in %s" % e.site[2], None, detail="UNDECIDED: " + dl.problem, sites=[e.site])
                    continue
                if not neg_atoms(dl.nf) and dl.nf.const >= 0:
                    continue
                n_debits.add((ename, variant))
                K = e.key
                if K == SENDER:
                    ctx.ob("R02.1", key + "/debit in %s" % e.site[2], True, sites=[e.site],
                           sample={"key": show(K), "delta": dl.nf.show(), "authority": "holder"})
                    continue
                dn = draw_ok.get(K)
                good = dn is not None and dn == dl.nf and any(di < i for di, de, o in draws if o == K)
                ctx.ob("R02.1", key + "/debit in %s" % e.site[2], good, sites=[e.site],
                       detail="balance of %s debited by %s without a preceding valid draw of the same amount on "
                              "ALLOWANCES[(that account, info.sender)] (draws on path: %s)"
                              % (show(K), dl.nf.show(), {show(o): n.show() for o, n in draw_ok.items()}),
                       sample={"key": show(K), "delta": dl.nf.show(), "authority": "allowance draw"})
            # ---- R02.4 decrease
            if variant == "DecreaseAllowance":
                check_decrease(ctx, p, key, alww)
            # ---- R02.5 notification
            ents = response_entries(p)
            if ents is None:
                ctx.ob("R02.5", key + "/response", None, detail="UNDECIDED: returned value is not a Response built in the handler: %s" % show(p.ret)[:200])
                continue
            if variant in ("Send", "SendFrom"):
                n_emit += 1
                prob = check_receive_msg(p, variant, ents, balw)
                ctx.ob("R02.5", key, prob is None, detail=prob, sample={"messages": [show(m)[:400] for _, m in ents]})
            else:
                ctx.ob("R02.5", key, not ents, detail="variant %s emits messages: %s" % (variant, [show(m)[:200] for _, m in ents]),
                       trivial=True)
    ctx.floor("R02.1", "debiting variants", len(n_debits), 6)
    ctx.floor("R02.2", "drawing variants", len(n_draws), 3)
    ctx.floor("R02.5", "Send/SendFrom Ok-paths", n_emit, 2)
    # R02.6 = C19 R19.1 / R19.2: what a spender may draw is what the owner approved only while the two allowance maps hold the same
    # entry - a grant computed from one map and stored into the other, or a revocation that misses one of them, leaves an allowance
    # the owner never gave (or took back) on the side the next grant starts from
    from . import C19
    sub = type(ctx)(ctx.pid, ctx.facts, ctx.engine, ctx.tier, ctx.tree_hash)
    C19.run(sub)
    for k in sub.order:
        o = sub.obs[k]
        if o.rule in ("R19.1", "R19.2") and not o.key.startswith(("anchor", "floor")):
            ctx.ob("R02.6", o.key, True if o.status == "discharged" else (None if o.status == "undecided" else False),
                   detail="; ".join(o.details), sites=o.sites, sample=o.sample, trivial=o.trivial)


def check_draw(p, i, e):
    """canonical draw: update; conds before the write: entry Some, not expired; value = old{allowance:=…}"""
    if not is_rmw(e) or e.op == "remove":
        return "draw is not a read-modify-write of the stored entry (op %s)" % e.op
    entry, some = stored_entry(e, p)
    base, fields = update_base(e.value)
    if base != entry:
        return "draw stores a value not derived from the stored entry: %s" % show(e.value)[:200]
    if set(fields) - {"allowance"}:
        return "draw changes fields other than `allowance`: %s" % sorted(fields)
    if "allowance" not in fields:
        return "draw does not lower the allowance"
    if not some:
        return "draw succeeds without the allowance entry being present"
    exp = ("field", base, "expires")
    notexp = any(c[0][0] == "call" and c[0][1] in IS_EXPIRED and c[0][2] == (exp, BLOCK) and c[1] is False for c in p.conds)
    if not notexp:
        return "draw succeeds without is_expired(entry.expires, env.block) = false"
    return None


def check_decrease(ctx, p, key, alww):
    ops = sorted(set(e.op for _, e in alww))
    if ops == ["remove"]:
        ctx.ob("R02.4", key + "/remove", True, sample={"ops": ops})
        return
    if not alww:
        ctx.ob("R02.4", key + "/no-write", False, detail="DecreaseAllowance Ok-path without an allowance write")
        return
    for i, e in alww:
        if e.op == "remove":
            continue
        d = cell_delta(e, field="allowance", path=p)
        if d.nf is None:
            ctx.ob("R02.4", key + "/subtract", False, detail=d.problem, sites=[e.site])
            continue
        neg = neg_atoms(d.nf)
        exact = not d.nf.inexact and len(d.nf.atoms) == 1 and len(neg) == 1
        amount = list(neg.keys())[0] if neg else None
        # the stored allowance of this very cell, however the new entry was put together
        stored_allow = [a for a in walk(e.value) if a[0] == "field" and a[2] == "allowance" and loaded_from(a[1]) is not None
                        and loaded_from(a[1])[0] == e.item and loaded_from(a[1])[1] == e.key]
        # a path condition must imply amount <= allowance, whichever way the comparison was spelled
        implied = any(lo == amount and hi in stored_allow for lo, hi, strict, c in order_facts(p.conds, before=i))
        ctx.ob("R02.4", key + "/subtract", bool(exact and implied), sites=[e.site],
               detail="decrease path subtracts %s without a path condition implying amount <= allowance (conds: %s)"
                      % (d.nf.show(), [(show(c[0])[:120], c[1]) for c in p.conds if c[0][0] == "cmp"]),
               sample={"delta": d.nf.show()})


def check_receive_msg(p, variant, ents, balw):
    if len(ents) != 1:
        return "expected exactly one message, found %d" % len(ents)
    how, m = ents[0]
    if how != "msg":
        return "notification is not a plain message (%s)" % how
    if not (m[0] == "variant" and m[2] == "Wasm"):
        # into_cosmos_msg returns CosmosMsg via .into(): the conversion is an identity in the term language
        pass
    wm = m
    if wm[0] == "variant" and wm[2] == "Wasm":
        wm = wm[3][0][1]
    if not (wm[0] == "variant" and wm[2] == "Execute"):
        return "message is not WasmMsg::Execute: %s" % show(m)[:200]
    f = dict(wm[3])
    contract = ("vfield", ("param", "msg"), variant, "contract")
    if f.get("contract_addr") != contract:
        return "contract_addr %s is not the `contract` parameter" % show(f.get("contract_addr"))
    if f.get("funds") != ("list", ()):
        return "funds attached to the notification: %s" % show(f.get("funds"))
    b = f.get("msg")
    # to_json_binary(...)? -> vfield(call to_json_binary (X), Ok, 0)
    if not (b[0] == "vfield" and b[2] == "Ok" and b[1][0] == "call" and b[1][1].endswith("to_json_binary")):
        return "msg is not to_json_binary(..): %s" % show(b)[:200]
    x = b[1][2][0]
    if not (x[0] == "variant" and x[2] == "Receive"):
        return "payload is not ReceiverExecuteMsg::Receive: %s" % show(x)[:200]
    r = x[3][0][1]
    if r[0] != "struct":
        return "Receive payload is not a Cw20ReceiveMsg struct"
    rf = dict(r[2])
    if rf.get("sender") != SENDER:
        return "Cw20ReceiveMsg.sender is %s, not info.sender (the true initiator)" % show(rf.get("sender"))
    amount = ("vfield", ("param", "msg"), variant, "amount")
    moved = [dl.nf for _, e, dl in balw if dl.nf is not None and not [c for c in dl.nf.atoms.values() if c < 0]]
    if rf.get("amount") != amount:
        return "Cw20ReceiveMsg.amount is %s, not the amount moved" % show(rf.get("amount"))
    if not any(n.atoms == {amount: 1} and n.const == 0 for n in moved):
        return "amount reported differs from the amount credited (%s)" % [n.show() for n in moved]
    if rf.get("msg") != ("vfield", ("param", "msg"), variant, "msg"):
        return "Cw20ReceiveMsg.msg is %s, not the attached payload" % show(rf.get("msg"))
    return None
