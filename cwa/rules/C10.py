"""C10 - cw4-stake: stakes are fully backed, weight follows stake, exit only after delay."""
from ..engine import show, OPTION
from ..idioms import dispatch, entry_points, loaded_from, nf, walk, response_entries, cell_delta, field_of, NF, decided_ints, order_facts
from .cw4common import SENDER, BLOCK, HEIGHT, items

ID = "C10"
CRATE = "cw4_stake"
RULES = {
    "R10.1": "weight is the exact quotient: the weight written to MEMBERS is (new stake / CONFIG.tokens_per_weight) converted "
             "losslessly (no `as` narrowing; a checked conversion that fails the call is fine); membership is removed / absent "
             "exactly on paths with new stake < CONFIG.min_bond; instantiate stores min_bond = max(msg.min_bond, 1) and the divisor, "
             "delay and token exactly as the message configured them",
    "R10.2": "stake deltas: Bond raises STAKE[staker] by exactly the accepted payment - native: the single attached coin whose "
             "denom equals the configured one; cw20: wrapper.amount on a path with info.sender == configured token, credited "
             "to the validated wrapper.sender; mixed kinds have no Ok-path. Unbond lowers STAKE[info.sender] by exactly the "
             "requested amount (checked)",
    "R10.3": "unbond creates the claim: the same path calls CLAIMS.create_claim(info.sender, <the amount unbonded>, "
             "CONFIG.unbonding_period.after(env.block))",
    "R10.4": "claim pays what matured: release = CLAIMS.claim_tokens(info.sender, env.block, None); release == 0 => Err; exactly "
             "one payout of `release` to info.sender in the configured denom / token",
    "R10.5": "membership follows every stake change: each STAKE write is followed on its path by the membership update of the "
             "same key computed from the value just written, recorded at env.block.height",
    "R10.6": "no other writer of STAKE / CLAIMS; bond adds stake only, unbond moves stake to claims, claim only releases claims",
}


def run(ctx):
    ctx.rule_texts.update(RULES)
    from ..idioms import check_overflow_profile
    check_overflow_profile(ctx)
    ctx.assumptions += ["A-ATOMIC", "A-PRIMS: cw_controllers::Claims create_claim / claim_tokens; Duration::after(block)", "A-OVF"]
    ctx.not_decided += ["the contract's real bank / cw20 balance (runtime, other contracts)", "Claims internals",
                        "Duration::after arithmetic", "numeric correctness of u128 division"]
    it = items(ctx)
    if not ctx.ob("R10.1", "anchor:storage namespaces", all(v is not None for v in it.values()), trivial=True,
                  detail="cw4 storage namespaces not found"):
        return
    STAKE, CLAIMS, MEM, CFG = it["s_stake"], it["s_claims"], it["s_members"], it["s_config"]
    eps = entry_points(ctx.facts, CRATE)
    n_bond = n_unbond = n_claim = n_weight = 0
    for ename, fn in sorted(eps.items()):
        if ename == "query":
            continue
        paths = ctx.summarise(fn)
        groups = dispatch(paths) if ename == "execute" else {None: paths}
        for variant, ps in sorted(groups.items(), key=lambda x: str(x[0])):
            key = "%s/%s" % (ename, variant)
            for p in ps:
                if p.is_err():
                    continue
                sw = [(i, e) for i, e in enumerate(p.effects) if e.kind == "write" and e.item == STAKE]
                cl = [(i, e) for i, e in enumerate(p.effects) if e.kind == "prim" and e.item == CLAIMS and e.op == "write"]
                mw = [(i, e) for i, e in enumerate(p.effects) if e.kind == "write" and e.item == MEM]
                cfgs = [("vfield", c[0], "Ok", "0") for c in p.conds if c[0][0] == "load" and c[0][1] == CFG and c[1] == "Ok"]
                cfg = cfgs[0] if cfgs else None
                if ename == "instantiate":
                    for e in [x for x in p.effects if x.kind == "write" and x.item == CFG]:
                        mb = field_of(e.value, "min_bond")
                        good = mb[0] == "call" and mb[1] == "max" and set(mb[2]) == {("field", ("param", "msg"), "min_bond"), ("lit", 1)}
                        if not good:
                            # the same maximum spelled as a branch: 1 where the request was decided zero, the request where it was not
                            req = ("field", ("param", "msg"), "min_bond")
                            zero = [c[1] for c in p.conds if c[0][0] == "call" and c[0][1].endswith("is_zero") and c[0][2][0] == req and isinstance(c[1], bool)]
                            facts_ = order_facts(p.conds)
                            le1 = any(lo == req and hi == ("lit", 1) for lo, hi, strict, c in facts_) or \
                                any(lo == req and hi == ("lit", 0) and not strict for lo, hi, strict, c in facts_) or zero == [True]
                            ge1 = any(lo == ("lit", 1) and hi == req and not strict for lo, hi, strict, c in facts_) or \
                                any(lo == ("lit", 0) and hi == req and strict for lo, hi, strict, c in facts_) or zero == [False]
                            good = (mb == ("lit", 1) and le1) or (mb == req and ge1)
                        ctx.ob("R10.1", "instantiate/min_bond >= 1", good, sites=[e.site],
                               detail="CONFIG.min_bond is %s, not max(msg.min_bond, 1): a zero stake could be a member" % show(mb)[:120],
                               sample={"min_bond": show(mb)[:120]})
                        # the configured divisor, delay and token reach storage as given: a narrowed / rescaled copy makes the
                        # weight follow a different rule than the one the instantiator configured
                        for f in ("tokens_per_weight", "unbonding_period", "denom"):
                            got = field_of(e.value, f)
                            ctx.ob("R10.1", "instantiate/%s stored as configured" % f, got == ("field", ("param", "msg"), f), sites=[e.site],
                                   detail="CONFIG.%s is stored as %s, not msg.%s" % (f, show(got)[:140], f), sample={f: show(got)[:120]})
                    ctx.ob("R10.6", "instantiate writes no stake", not sw and not cl, trivial=True)
                    continue
                if variant not in ("Bond", "Receive", "Unbond", "Claim"):
                    # a message the table does not know: judged by what it does.  Lowering the caller's stake is an unbond of that
                    # amount (same rules: exact, checked, claim of the same amount after the delay); releasing claims is a claim;
                    # anything else that touches STAKE / CLAIMS has no rule that could make it sound
                    kind_ = None
                    if len(sw) == 1 and all(x.name == "Claims::create_claim" for _, x in cl):
                        d0 = cell_delta(sw[0][1], path=p)
                        if d0.nf is not None and not d0.nf.inexact and not d0.nf.const and len(d0.nf.atoms) == 1 and list(d0.nf.atoms.values()) == [-1]:
                            kind_ = ("unbond", list(d0.nf.atoms)[0])
                    elif not sw and cl and all(x.name == "Claims::claim_tokens" for _, x in cl):
                        kind_ = ("claim", None)
                    elif len(sw) == 1 and len(cl) == 1 and cl[0][1].name == "Claims::claim_tokens" and cl[0][0] < sw[0][0]:
                        # matured claims moved back into the caller's own stake: what is released from CLAIMS is what is added to
                        # STAKE, so the sum the contract must back is unchanged (and nothing is paid out)
                        a_ = cl[0][1].args
                        release_ = ("vfield", ("call", "Claims::claim_tokens", a_), "Ok", "0")
                        d0 = cell_delta(sw[0][1], path=p)
                        if d0.nf is not None and not d0.nf.inexact and not d0.nf.const and d0.nf.atoms == {release_: 1} \
                                and sw[0][1].key == SENDER and a_[-3] == SENDER and a_[-2] == BLOCK \
                                and all(h in ("submsgs", "submsg") and "prepare_hooks" in show(m) for h, m in (response_entries(p) or [])):
                            kind_ = ("rebond", release_)
                    if kind_ is None:
                        ctx.ob("R10.6", key + "/no stake or claim change", not sw and not cl, sites=[e.site for _, e in sw + cl],
                               detail="%s changes STAKE/CLAIMS in a way that is neither an unbond of the caller's own stake nor a claim" % variant,
                               trivial=True)
                        continue
                    if kind_[0] == "unbond":
                        check_unbond(ctx, p, key, sw, cl, cfg, amount=kind_[1])
                    elif kind_[0] == "rebond":
                        ctx.ob("R10.6", key + "/claims moved back to the caller's stake", True,
                               sample={"stake_delta": "+" + show(kind_[1])[:100]})
                    else:
                        check_claim(ctx, p, key, sw, cl, cfg, CLAIMS)
                    variant_kind = kind_[0]
                if variant in ("Bond", "Receive"):
                    n_bond += 1
                    check_bond(ctx, p, key, variant, sw, cl, cfg)
                elif variant == "Unbond":
                    n_unbond += 1
                    check_unbond(ctx, p, key, sw, cl, cfg)
                elif variant == "Claim":
                    n_claim += 1
                    check_claim(ctx, p, key, sw, cl, cfg, CLAIMS)
                # R10.5 / R10.1
                for i, e in sw:
                    K, S = e.key, e.value
                    after_reads = [r for j, r in enumerate(p.effects) if j > i and r.kind == "read" and r.item == MEM and r.key == K]
                    mb_ = ("field", cfg, "min_bond") if cfg is not None else None
                    # the decision `new stake < min_bond`, however it was spelled
                    dec = []
                    for lo, hi, strict, c in order_facts(p.conds):
                        if lo == S and hi == mb_ and strict:
                            dec.append((c, True))
                        elif lo == mb_ and hi == S and not strict:
                            dec.append((c, False))
                    good = bool(after_reads) and len(dec) == 1
                    ctx.ob("R10.5", key + "/membership recomputed from the stake just written", good, sites=[e.site],
                           detail="STAKE[%s] written but the membership of that key is not recomputed from the written value "
                                  "(MEMBERS read after: %d, min_bond decision on the new stake: %d)" % (show(K)[:60], len(after_reads), len(dec)),
                           sample={"stake": show(S)[:160]})
                    if not good:
                        continue
                    below = dec[0][1]
                    for j, m in mw:
                        n_weight += 1
                        prob = None
                        if m.key != K:
                            prob = "membership of %s written for a stake change of %s" % (show(m.key)[:60], show(K)[:60])
                        elif m.extra != HEIGHT:
                            prob = "membership recorded at height %s" % show(m.extra)[:80]
                        elif m.op == "remove":
                            if below is not True:
                                prob = "member removed although new stake >= min_bond"
                        elif m.op == "save":
                            if below is not False:
                                prob = "member weight saved although new stake < min_bond"
                            else:
                                w = m.value
                                q = ("bin", "div", S, ("field", cfg, "tokens_per_weight"))
                                if w == q:
                                    pass
                                elif w[0] == "vfield" and w[2] == "Ok" and w[1][0] == "call" and ("try_from" in w[1][1] or "try_into" in w[1][1]) \
                                        and w[1][2][-1] == q:
                                    pass
                                elif w[0] == "cast" and w[3] == q:
                                    prob = ("weight is (stake / tokens_per_weight) `as u64`: the u128 quotient is truncated silently "
                                            "(tokens_per_weight = 1, stake = 2^64 => weight 0)")
                                else:
                                    prob = "weight %s is not new_stake / CONFIG.tokens_per_weight" % show(w)[:200]
                        ctx.ob("R10.1", key + "/weight in %s" % m.site[2].split("::")[-1], prob is None, detail=prob, sites=[m.site],
                               sample={"weight": show(m.value)[:160] if m.op == "save" else "removed"})
                    if not mw:
                        # no membership write: allowed only when new == old was decided
                        eq = any(c[0][0] == "cmp" and c[0][1] == "eq" and c[1] is True for c in p.conds)
                        # or: not a member before (MEMBERS[K] read absent) and below min_bond now (no weight) - nothing to write
                        was_absent = any(c[0][0] == "vfield" and c[0][2] == "Ok" and c[0][1][0] == "may_load" and c[0][1][1] == MEM
                                         and c[0][1][2] == K and c[1] == "None" for c in p.conds)
                        eq = eq or (was_absent and below is True)
                        ctx.ob("R10.5", key + "/unchanged weight", eq, sites=[e.site],
                               detail="stake changed, membership not written, and no decision that the weight is unchanged", sample={"unchanged": True})
    ctx.floor("R10.2", "bond paths", n_bond, 2)
    ctx.floor("R10.2", "unbond paths", n_unbond, 1)
    ctx.floor("R10.4", "claim paths", n_claim, 2)
    ctx.floor("R10.1", "weight writes", n_weight, 2)


def check_bond(ctx, p, key, variant, sw, cl, cfg):
    if cl:
        ctx.ob("R10.6", key + "/bond touches claims", False, sites=[e.site for _, e in cl], detail="bonding changes CLAIMS")
    if len(sw) != 1:
        ctx.ob("R10.2", key + "/one stake write", False, detail="%d STAKE writes on a bond path" % len(sw), sites=[e.site for _, e in sw])
        return
    i, e = sw[0]
    d = cell_delta(e, path=p)
    if d.nf is None or d.nf.inexact:
        ctx.ob("R10.2", key + "/stake delta", False, detail=d.problem or "inexact %s" % d.nf.inexact, sites=[e.site])
        return
    kind = [c[1] for c in p.conds if cfg is not None and c[0] == ("field", cfg, "denom")]
    prob = None
    funds = ("field", ("param", "info"), "funds")
    if variant == "Bond":
        coin0 = ("index", funds, ("lit", 0))
        # the same single coin taken through an iterator: it.next() = Some(coin), it.next() = None
        it_first = [c[0] for c in p.conds if c[0][0] == "calli" and c[0][1] == "next" and c[0][2][0] == funds and c[1] == "Some"]
        it_second_none = any(c[0][0] == "calli" and c[0][1] == "next" and c[0][2][0] == ("call", "advance", (funds,)) and c[1] == "None"
                             for c in p.conds)
        via_iter = bool(it_first) and it_second_none
        if via_iter:
            coin0 = ("vfield", it_first[0], "Some", "0")
        want = {("field", coin0, "amount"): 1}
        if kind != ["Native"]:
            prob = "native funds accepted while the configured stake token is %s" % kind
        elif e.key != SENDER:
            prob = "stake credited to %s, not to the payer info.sender" % show(e.key)[:80]
        elif d.nf.atoms != want or d.nf.const:
            prob = "stake raised by %s, not by the single attached coin's amount" % d.nf.show()
        else:
            one = via_iter or 1 in decided_ints(p.conds, ("call", "len", (funds,)))
            den = any(c[0][0] == "cmp" and c[0][1] == "eq" and c[1] is True and
                      set((c[0][2], c[0][3])) == set((("field", coin0, "denom"), ("vfield", ("field", cfg, "denom"), "Native", "0"))) for c in p.conds)
            if not (one and den):
                prob = "payment accepted without (exactly one coin attached: %s, its denom == configured denom: %s)" % (one, den)
    else:
        w = ("vfield", ("param", "msg"), "Receive", "0")
        want = {("field", w, "amount"): 1}
        staker = ("vfield", ("call", "cosmwasm_std::Api::addr_validate", (("field", ("param", "deps"), "api"), ("field", w, "sender"))), "Ok", "0")
        if kind != ["Cw20"]:
            prob = "cw20 payment accepted while the configured stake token is %s" % kind
        elif e.key != staker:
            prob = "stake credited to %s, not to the validated wrapper.sender" % show(e.key)[:80]
        elif d.nf.atoms != want or d.nf.const:
            prob = "stake raised by %s, not by wrapper.amount" % d.nf.show()
        else:
            tok = any(c[0][0] == "cmp" and c[0][1] == "eq" and c[1] is True and
                      set((c[0][2], c[0][3])) == set((SENDER, ("vfield", ("field", cfg, "denom"), "Cw20", "0"))) for c in p.conds)
            if not tok:
                prob = "cw20 payment accepted without info.sender == configured token address"
    ctx.ob("R10.2", key + "/bond", prob is None, detail=prob, sites=[e.site], sample={"delta": d.nf.show(), "key": show(e.key)[:80]})


def check_unbond(ctx, p, key, sw, cl, cfg, amount=None):
    amount = amount or ("vfield", ("param", "msg"), "Unbond", "tokens")
    prob = None
    if len(sw) != 1:
        prob = "%d STAKE writes on an unbond path" % len(sw)
    else:
        i, e = sw[0]
        d = cell_delta(e, path=p)
        if d.nf is None or d.nf.inexact:
            prob = d.problem or "inexact %s" % d.nf.inexact
        elif e.key != SENDER:
            prob = "stake of %s lowered, not the caller's" % show(e.key)[:80]
        elif d.nf.atoms != {amount: -1} or d.nf.const:
            prob = "stake lowered by %s, not by exactly the requested amount" % d.nf.show()
    ctx.ob("R10.2", key + "/unbond", prob is None, detail=prob, sites=[e.site for _, e in sw], sample={"delta": "-" + show(amount)})
    good = len(cl) == 1 and cl[0][1].name == "Claims::create_claim"
    why = "unbond path with %d claim operations" % len(cl)
    if good:
        a = cl[0][1].args
        rel = ("call", "cw_utils::Duration::after", (("field", cfg, "unbonding_period"), BLOCK)) if cfg else None
        na = nf(a[-2])
        same_amount = a[-2] == amount or (na.atoms == {amount: 1} and not na.const and not na.inexact)
        good = a[-3] == SENDER and same_amount and a[-1] == rel
        why = "claim created as (%s, %s, %s), expected (info.sender, unbonded amount, unbonding_period.after(env.block))" % (
            show(a[-3])[:60], show(a[-2])[:60], show(a[-1])[:120])
    ctx.ob("R10.3", key + "/claim created", good, detail=why, sites=[e.site for _, e in cl], sample={"claim": show(("tuple", cl[0][1].args[-3:]))[:200] if cl else None})


def check_claim(ctx, p, key, sw, cl, cfg, CLAIMS):
    if sw:
        ctx.ob("R10.6", key + "/claim touches stake", False, sites=[e.site for _, e in sw], detail="claiming changes STAKE")
    good = len(cl) == 1 and cl[0][1].name == "Claims::claim_tokens"
    why = "claim path with %d claim operations" % len(cl)
    release = None
    if good:
        a = cl[0][1].args
        good = a[-3] == SENDER and a[-2] == BLOCK and a[-1] == ("variant", OPTION, "None", ())
        why = "claim_tokens(%s, %s, %s): expected (info.sender, env.block, None)" % (show(a[-3])[:50], show(a[-2])[:50], show(a[-1])[:50])
        release = ("vfield", ("call", "Claims::claim_tokens", a), "Ok", "0")
    ctx.ob("R10.4", key + "/release", good, detail=why, sites=[e.site for _, e in cl], sample={"release": show(release)[:160] if release else None})
    if not good:
        return
    nz = any(c[0][0] == "cmp" and c[0][1] == "eq" and c[1] is False and set((c[0][2], c[0][3])) == set((release, ("lit", 0))) for c in p.conds)
    ctx.ob("R10.4", key + "/nothing to claim is an error", nz, detail="claim succeeds without the decision release != 0", sample={"guard": "release != 0"})
    ents = response_entries(p) or []
    kind = [c[1] for c in p.conds if cfg is not None and c[0] == ("field", cfg, "denom")]
    good = len(ents) == 1 and ents[0][0] in ("submsg", "msg")
    why = "expected exactly one payout message, got %s" % [(h, show(m)[:100]) for h, m in ents]
    if good:
        m = ents[0][1]
        # a plain message: add_message(x) or add_submessage(SubMsg::new(x)) (no reply handler, a failure reverts the claim)
        inner = m if ents[0][0] == "msg" else (m[2][0] if m[0] == "call" and m[1].endswith("SubMsg::new") else None)
        good = False
        why = "payout %s does not pay `release` to info.sender in the configured token" % show(m)[:240]
        if inner is not None and inner[0] == "variant":
            f = dict(inner[3])
            if kind == ["Native"] and inner[2] == "Send":
                amt = f.get("amount")
                good = f.get("to_address") == SENDER and amt == ("list", (("struct", "cosmwasm_std::coin::Coin", (("denom", ("vfield", ("field", cfg, "denom"), "Native", "0")), ("amount", release))),))
            elif kind == ["Cw20"] and inner[2] == "Execute":
                b = f.get("msg")
                if b and b[0] == "vfield" and b[1][0] == "call" and b[1][1].endswith("to_json_binary"):
                    x = b[1][2][0]
                    good = f.get("contract_addr") == ("vfield", ("field", cfg, "denom"), "Cw20", "0") and f.get("funds") == ("list", ()) \
                        and x[0] == "variant" and x[2] == "Transfer" and dict(x[3]) == {"recipient": SENDER, "amount": release}
    ctx.ob("R10.4", key + "/payout", good, detail=why, sample={"payout": show(ents[0][1])[:240] if ents else None})
