"""shared recognisers for cw20-ics20"""
from ..engine import show
from ..idioms import storage_items, loaded_from, walk, update_base, nf, NF

CRATE = "cw20_ics20"
SENDER = ("field", ("param", "info"), "sender")


def items(ctx):
    s = storage_items(ctx.engine, CRATE)
    return {"config": s.get("ics20_config"), "admin": s.get("admin"), "allow": s.get("allow_list"),
            "chan_info": s.get("channel_info"), "state": s.get("channel_state"), "reply": s.get("reply_args")}


from ..prims import is_rmw


def ack_kind(data):
    """'success' / 'error' / None for the acknowledgement bytes of a response"""
    if data is None:
        return None
    for x in walk(data):
        if x[0] == "variant" and x[1].endswith("Ics20Ack"):
            return "success" if x[2] == "Result" else "error"
    return "?"


def state_delta(e, p=None):
    """(outstanding NF, total_sent NF, problem) of a CHANNEL_STATE write relative to the stored entry.
    The stored entry may be absent for increases (unwrap_or_default) but must be present for reductions."""
    if not is_rmw(e) or e.op == "remove":
        return None, None, "channel state written with %s, not a read-modify-write of the stored entry" % e.op
    base, fields = update_base(e.value)
    if base[0] == "struct" and not fields and {"outstanding", "total_sent"} <= set(n for n, _ in base[2]):
        # the entry taken apart and rebuilt (`let ChannelState { mut outstanding, mut total_sent } = cur; ..; ChannelState { outstanding,
        # total_sent }`): each field is computed from the same field of one previous entry - that entry is the base
        cands = None
        for f, v in base[2]:
            bs = set(a[1] for a in nf(v).atoms if a[0] == "field" and a[2] == f)
            cands = bs if cands is None else (cands & bs)
        if cands and len(cands) == 1:
            fields = dict(base[2])
            base = list(cands)[0]
        elif e.old is not None and p is not None and any(c[0] == e.old and c[1] == "None" for c in p.conds):
            # rebuilt on the path that found no entry: every field starts from the default (zero)
            out0 = {f: nf(v) for f, v in base[2] if f in ("outstanding", "total_sent")}
            if all(not n.inexact for n in out0.values()):
                return out0["outstanding"], out0["total_sent"], "or-default"
    if base == ("vfield", e.old, "Some", "0"):
        kind = "present"
    elif base == ("unwrap_or", e.old, ("default", "?")) or \
            (base[0] == "default" and e.old is not None and p is not None and any(c[0] == e.old and c[1] == "None" for c in p.conds)):
        # the stored entry or a fresh default: spelled unwrap_or_default(), or `None => ChannelState::default()` on the
        # paths that decided the entry absent
        kind = "or-default"
    else:
        return None, None, "channel state not derived from the stored entry: %s" % show(e.value)[:200]
    out = {}
    for f in ("outstanding", "total_sent"):
        if f not in fields:
            out[f] = NF()
            continue
        n = nf(fields[f])
        prev = ("field", base, f)
        if n.atoms.get(prev, 0) != 1:
            return None, None, "new %s is not previous %s plus/minus something: %s" % (f, f, show(fields[f])[:160])
        n.add_atom(prev, -1)
        if n.inexact:
            return None, None, "inexact arithmetic on %s: %s" % (f, n.inexact)
        out[f] = n
    extra = set(fields) - {"outstanding", "total_sent"}
    if extra:
        return None, None, "unexpected fields changed: %s" % sorted(extra)
    return out["outstanding"], out["total_sent"], kind


def denom_kind(p, D):
    """how path p classified the denom term D: ('native', None), ('cw20', token term) or (None, None).
    Spellings: D.starts_with("cw20:") with the token D.get(5..).unwrap(); D.strip_prefix("cw20:") -> Some(token) / None"""
    for c in p.conds:
        t = c[0]
        if t[0] == "call" and t[1].endswith("starts_with") and t[2][0] == D and t[2][1] == ("str", "cw20:") and isinstance(c[1], bool):
            if c[1] is False:
                return "native", None
            return "cw20", "get"
        if t[0] == "call" and t[1].endswith("strip_prefix") and t[2][0] == D and t[2][1] == ("str", "cw20:") and c[1] in ("Some", "None"):
            if c[1] == "None":
                return "native", None
            return "cw20", ("vfield", t, "Some", "0")
    return None, None


def token_matches(tok, how, D):
    if how == "get":
        return tok[0] == "vfield" and tok[1][0] == "call" and tok[1][1].endswith("::get") and tok[1][2][0] == D
    return tok == how


def payout_parts(m):
    """m: the sub-message term.  Returns dict(kind, denom_or_token, amount, recipient, how, reply_id, gas_limit) or None."""
    gas = None
    sub = m
    if sub[0] == "update":
        f = dict(sub[2])
        gas = f.get("gas_limit")
        if set(f) - {"gas_limit"}:
            return None
        sub = sub[1]
    if not (sub[0] == "call" and sub[1].startswith("cosmwasm_std::SubMsg::")):
        return None
    how = sub[1].split("::")[-1]
    inner = sub[2][0]
    rid = sub[2][1] if len(sub[2]) > 1 else None
    if inner[0] != "variant":
        return None
    f = dict(inner[3])
    if inner[2] == "Send":
        amt = f.get("amount")
        if amt and amt[0] == "list" and len(amt[1]) == 1 and amt[1][0][0] == "struct":
            c = dict(amt[1][0][2])
            return {"kind": "native", "denom": c.get("denom"), "amount": c.get("amount"), "recipient": f.get("to_address"),
                    "how": how, "reply_id": rid, "gas_limit": gas}
        return None
    if inner[2] == "Execute":
        b = f.get("msg")
        if f.get("funds") != ("list", ()):
            return None
        x = None
        for y in walk(b):
            if y[0] == "variant" and y[2] == "Transfer":
                x = y
        if x is None:
            return None
        t = dict(x[3])
        return {"kind": "cw20", "token": f.get("contract_addr"), "amount": t.get("amount"), "recipient": t.get("recipient"),
                "how": how, "reply_id": rid, "gas_limit": gas}
    return None
