from ..idioms import storage_items

SENDER = ("field", ("param", "info"), "sender")
BLOCK = ("field", ("param", "env"), "block")
HEIGHT = ("field", BLOCK, "height")


def items(ctx):
    g = storage_items(ctx.engine, "cw4_group")
    s = storage_items(ctx.engine, "cw4_stake")
    return {"g_admin": g.get("admin"), "g_hooks": g.get("cw4-hooks"), "g_total": g.get("total"), "g_members": g.get("members"),
            "s_admin": s.get("admin"), "s_hooks": s.get("cw4-hooks"), "s_total": s.get("total"), "s_members": s.get("members"),
            "s_config": s.get("config"), "s_stake": s.get("stake"), "s_claims": s.get("claims")}
