"""C19 - cw20: the three allowance views agree, also after migration."""
from ..engine import show, OPTION
from ..idioms import dispatch, entry_points, storage_items, walk, field_of, order_facts, version_literal
from .listing import extract, deep_walk

ID = "C19"
SPENDER_INDEX_SINCE = "0.14.0"     # cw20-base release that introduced ALLOWANCES_SPENDER (CHANGELOG; the source's own gate at the pinned commit)
CRATE = "cw20_base"
NONE = ("variant", OPTION, "None", ())

RULES = {
    "R19.1": "pairing: on every Ok-path a write to ALLOWANCES[(a,b)] occurs iff the same kind of write to "
             "ALLOWANCES_SPENDER[(b,a)] occurs, with the same value term (for updates: the same function of the old entry)",
    "R19.1-IH": "induction hypothesis: paths that decide presence of ALLOWANCES[(a,b)] and of ALLOWANCES_SPENDER[(b,a)] differently "
                "before any write are infeasible from a state in which the views agree and are skipped",
    "R19.2": "no other writers: outside migrate every write to either map is one half of such a pair",
    "R19.3": "views: Allowance reads ALLOWANCES[(owner, spender)]; AllAllowances ranges over ALLOWANCES.prefix(owner) and "
             "AllSpenderAllowances over ALLOWANCES_SPENDER.prefix(spender), each copying allowance/expires field-for-field",
    "R19.5": "the rebuild gate compares versions as versions: the decision that guards the rebuild is the strict `stored < parsed` on "
             "semver::Version values (the stored contract version against a parsed literal, 0.14.0 = the release that introduced "
             "the spender index - a fact about released storage formats, frozen from the source and CHANGELOG), not a comparison of strings; which "
             "literal it is remains a runtime matter",
    "R19.4": "migrate rebuilds the spender map by iterating the whole owner map and saving [(spender, owner)] := allowance",
}


def norm_old(t):
    """replace the closure argument of an update by a placeholder so that both halves can be compared"""
    if not isinstance(t, tuple):
        return t
    if t and t[0] == "may_load" and len(t) == 4 and t[1] in _MAPS:
        return ("OLD",)
    return tuple(norm_old(x) for x in t)


_MAPS = []


def _canon_stored(t, present):
    """with the entry decided present / absent, `stored.unwrap_or_default()` and the payload of the decided `Some` are one thing"""
    if not isinstance(t, tuple):
        return t
    old = ("vfield", ("OLD",), "Ok", "0")
    if t and t[0] == "unwrap_or" and len(t) == 3 and t[2] == ("default", "?") and t[1] == old:
        return ("STORED",) if present else ("default", "?")
    if present and t == ("vfield", old, "Some", "0"):
        return ("STORED",)
    return tuple(_canon_stored(x, present) for x in t)


def same_value(p, e, f, ALW, ALWS):
    """the two halves of a paired write store the same entry: equal once each side's own stored entry is the placeholder OLD.
    Where the path has decided one of the two entries present / absent before any write (an earlier read by the handler), the other
    is so too under the induction hypothesis (R19.1's pre-state): its `unwrap_or_default()` is that payload / the default."""
    a, b = norm_old(e.value), norm_old(f.value)
    if a == b:
        return True
    dec = [c[1] for c in p.conds if c[1] in ("Some", "None") and c[0][0] == "vfield" and c[0][2] == "Ok" and c[0][1][0] == "may_load"
           and c[0][1][1] in (ALW, ALWS) and c[0][1][3] == 0 and (c[0][1][2] == e.key or c[0][1][2] == f.key)]
    if not dec or len(set(dec)) != 1:
        return False
    present = dec[0] == "Some"
    return _canon_stored(a, present) == _canon_stored(b, present)


def wkind(e):
    """update and its unfolded spelling (may_load .. save) are the same kind of write"""
    return "update" if (e.op == "update" or (e.op == "save" and e.old is not None)) else e.op


def pre_state_agrees(p, ALW, ALWS):
    """induction hypothesis of the pairing rule: before the call ALLOWANCES[(a,b)] and ALLOWANCES_SPENDER[(b,a)] hold the
    same entry.  A path that decides the two (read before any write to either map) differently - one present, the other
    absent - cannot be taken from a state where the views agree, so it has nothing to preserve."""
    seen = {}
    for c in p.conds:
        t = c[0]
        if t[0] == "vfield" and t[2] == "Ok" and t[1][0] == "may_load" and t[1][1] in (ALW, ALWS) and t[1][3] == 0 and c[1] in ("Some", "None"):
            k = t[1][2] if t[1][1] == ALW else swap(t[1][2])
            if k is None:
                continue
            if seen.setdefault(repr(k), c[1]) != c[1]:
                return False
    return True


def swap(k):
    if isinstance(k, tuple) and k and k[0] == "tuple" and len(k[1]) == 2:
        return ("tuple", (k[1][1], k[1][0]))
    return None


def run(ctx):
    eng = ctx.engine
    ctx.rule_texts.update(RULES)
    ctx.assumptions += ["A-ATOMIC", "A-PRIMS (Map::prefix/range iterate exactly the entries under the prefix)"]
    ctx.not_decided += ["the version predicate that gates the rebuild in migrate (runtime value)"]
    items = storage_items(eng, CRATE)
    ALW, ALWS = items.get("allowance"), items.get("allowance_spender")
    if not ctx.ob("R19.1", "anchor:storage namespaces", None not in (ALW, ALWS), trivial=True,
                  detail="storage namespaces allowance/allowance_spender not found"):
        return
    _MAPS[:] = [ALW, ALWS]
    eps = entry_points(ctx.facts, CRATE)
    pair_sites = set()
    for ename, fn in sorted(eps.items()):
        if ename in ("query",):
            continue
        paths = ctx.summarise(fn)
        groups = dispatch(paths) if ename == "execute" else {None: paths}
        for variant, ps in sorted(groups.items(), key=lambda x: str(x[0])):
            key = "%s/%s" % (ename, variant)
            for p in ps:
                if p.is_err():
                    continue
                if not pre_state_agrees(p, ALW, ALWS):
                    continue
                a = [e for e in p.effects if e.kind == "write" and e.item == ALW]
                b = [e for e in p.effects if e.kind == "write" and e.item == ALWS]
                if ename == "migrate":
                    check_migrate(ctx, p, a, b, ALW, ALWS)
                    continue
                used = set()
                for e in a:
                    sk = swap(e.key)
                    m = None
                    for j, f in enumerate(b):
                        if j in used:
                            continue
                        if f.key == sk and (f.op == e.op or wkind(f) == wkind(e)) and same_value(p, e, f, ALW, ALWS) and f.loops == e.loops:
                            m = j
                            break
                    if m is not None:
                        used.add(m)
                        pair_sites.add((ename, variant, wkind(e)))
                    ctx.ob("R19.1", key + "/%s in %s" % (e.op, e.site[2]), m is not None, sites=[e.site],
                           detail="ALLOWANCES %s at key %s has no matching ALLOWANCES_SPENDER %s at the swapped key with the "
                                  "same value on this path (spender-side writes: %s)"
                                  % (e.op, show(e.key)[:160], e.op, [(f.op, show(f.key)[:120]) for f in b]),
                           sample={"owner_side": repr(e)[:240]})
                for j, f in enumerate(b):
                    if j not in used:
                        ctx.ob("R19.2", key + "/unpaired spender-side %s in %s" % (f.op, f.site[2]), False, sites=[f.site],
                               detail="ALLOWANCES_SPENDER %s at %s without the owner-side counterpart" % (f.op, show(f.key)[:160]))
            if ename != "migrate":
                ctx.ob("R19.2", key, True, trivial=True)
    ctx.floor("R19.1", "paired writes (entry, variant, op)", len(pair_sites), 4)
    check_queries(ctx, eps, ALW, ALWS)


def check_migrate(ctx, p, a, b, ALW, ALWS):
    key = "migrate"
    if a:
        ctx.ob("R19.4", key + "/owner map written", False, detail="migrate writes ALLOWANCES", sites=[e.site for e in a])
    # every element taken from the owner map must reach the spender map: an iteration either saves it, or pushes it unchanged
    # onto a vector that a later loop saves from (collect-then-write); an iteration that does neither drops that entry
    def over_alw(ent):
        return any(x[0] == "call" and x[1].endswith("::range") and x[2] and x[2][0] == ALW
                   for v in ent.value.values() for x in deep_walk(p, v))
    for ent in [e for e in p.effects if e.kind == "loop_enter"]:
        if not over_alw(ent):
            continue
        lk = ent.name
        elem = None
        for c in p.conds:
            if c[0][0] == "calli" and c[0][1] == "next" and c[1] == "Some" and c[0][2][0][0] == "loopvar" and c[0][2][0][1] == lk \
                    and c[0][2][0][3] == 0:
                elem = ("vfield", c[0], "Some", "0")
        saved = [f for f in b if f.loops and f.loops[-1] == lk]
        if elem is not None:
            stp = [e for e in p.effects if e.kind == "loop_step" and e.name == lk]
            pushed = False
            for var, v in (stp[0].value.items() if stp else []):
                if v[0] == "call" and v[1] == "push" and v[2][0] == ("loopvar", lk, var, 0) and v[2][1] in (elem, ("vfield", elem, "Ok", "0")):
                    pushed = True
            skip = [(show(c[0])[:100], c[1]) for c in p.conds if c[0][0] in ("cmp", "call", "is") and "next" in show(c[0])]
            ctx.ob("R19.4", key + "/every iterated entry is copied", bool(saved) or pushed, sites=[ent.site],
                   detail="the rebuild loop has an iteration that takes an (owner, spender) entry and neither saves it to the spender map "
                          "nor passes it on unchanged (decisions on that iteration: %s): the entry stays visible to Allowance / "
                          "AllAllowances but not to AllSpenderAllowances" % skip[:3], sample={"saved": len(saved), "collected": pushed})
    if b:
        first = min(p.effects.index(f) for f in b)
        gate = None
        good = False
        for lo, hi, strict, c in order_facts(p.conds, before=first):
            parsed = (hi[0] == "vfield" and hi[1][0] == "call" and hi[1][1].endswith("::parse")) or \
                (hi[0] == "call" and hi[1].endswith("Version::new") and all(x[0] == "lit" for x in hi[2]))     # semver::Version::new(0, 14, 0)
            stored = any(x[0] == "call" and ("ensure_from_older_version" in x[1] or "get_contract_version" in x[1]) for x in walk(lo))
            if parsed or stored:
                gate = c[0]
            if parsed and stored and strict and not any(x[0] == "call" and x[1].endswith(("as_str", "to_string")) for x in walk(lo)):
                good = True
                # release boundary (a fact about the released storage formats, see RULES): the spender index exists from 0.14.0 on
                ctx.ob("R19.5", key + "/release boundary", version_literal(hi) == SPENDER_INDEX_SINCE, sites=[b[0].site],
                       detail="the rebuild is gated by stored < %s, but the spender index was introduced in %s: tokens stored by the "
                              "releases in between are migrated without / with a needless rebuild" % (version_literal(hi), SPENDER_INDEX_SINCE),
                       sample={"boundary": version_literal(hi)})
        ctx.ob("R19.5", key + "/rebuild gate", good, sites=[b[0].site],
               detail="the rebuild of the spender index is gated by %s, which is not `stored semver version < parsed semver literal`"
                      % (show(gate)[:200] if gate else "no version decision"), sample={"gate": show(gate)[:160] if gate else None})
    if not b:
        return
    for f in b:
        prob = None
        if f.op != "save" or not f.loops:
            prob = "spender map written outside a rebuild loop (%s)" % f.op
        else:
            lk = f.loops[-1]
            ent = [e for e in p.effects if e.kind == "loop_enter" and e.name == lk]
            coll = None
            for var, v in (ent[0].value.items() if ent else []):
                for x in deep_walk(p, v):
                    if x[0] == "call" and x[1].endswith("::range") and x[2] and x[2][0] == ALW:
                        coll = x
            if coll is None:
                prob = "rebuild loop does not iterate ALLOWANCES.range(..)"
            elif coll[2][1] != NONE or coll[2][2] != NONE:
                prob = "rebuild iterates only part of the owner map (bounds %s, %s)" % (show(coll[2][1]), show(coll[2][2]))
            elif any(x[0] == "call" and x[1].endswith(("Iterator::take", "Iterator::filter", "Iterator::skip", "Iterator::filter_map",
                                                      "Iterator::take_while", "Iterator::skip_while", "Iterator::step_by"))
                     for var, v in ent[0].value.items() for x in deep_walk(p, v)):
                prob = "rebuild iterates a filtered / truncated view of the owner map"
            else:
                # element = next(iter)?Some.0 ; key must be (elem.0.1, elem.0.0), value elem.1
                k = f.key
                v = f.value
                if not (v[0] == "field" and v[2] == "1"):
                    prob = "value saved is not the element's allowance: %s" % show(v)[:160]
                else:
                    el = v[1]
                    want = ("tuple", (("field", ("field", el, "0"), "1"), ("field", ("field", el, "0"), "0")))
                    if k != want:
                        prob = "key %s is not (spender, owner) of the iterated ((owner, spender), allowance) element" % show(k)[:200]
                    elif not (el[0] == "vfield" and el[2] == "Some" and el[1][0] == "calli" and el[1][1] == "next"):
                        prob = "element is not the loop's iterator item"
        ctx.ob("R19.4", key + "/rebuild", prob is None, detail=prob, sites=[f.site],
               sample={"save": repr(f)[:300]})


def closure_summary(ctx, clos):
    """summarise a closure body given its closure term; returns list of paths"""
    b = ctx.engine.by_dp.get(clos[1])
    if b is None:
        return None
    args = [clos] + [("param", "arg%d" % i) for i in range(1, b.argc)]
    return ctx.engine.summarise(b, args=args)


def check_queries(ctx, eps, ALW, ALWS):
    paths = ctx.summarise(eps["query"])
    groups = dispatch(paths)
    # single allowance
    n = 0
    for p in groups.get("Allowance", []):
        if p.is_err():
            continue
        reads = [e for e in p.effects if e.kind == "read"]
        n += 1
        good = len(reads) == 1 and reads[0].item == ALW
        if good:
            k = reads[0].key
            o = ("vfield", ("param", "msg"), "Allowance", "owner")
            s = ("vfield", ("param", "msg"), "Allowance", "spender")
            def validated(x, src):
                return x[0] == "vfield" and x[2] == "Ok" and x[1][0] == "call" and x[1][1].endswith("addr_validate") and x[1][2][-1] == src
            good = k[0] == "tuple" and len(k[1]) == 2 and validated(k[1][0], o) and validated(k[1][1], s)
            # the response is the loaded entry whenever one is stored (default only when absent): no filtering in between
            r = p.ret
            ml = [x for x in walk(r) if x[0] == "may_load" and x[1] == ALW]
            opt = ("vfield", ml[0], "Ok", "0") if ml else None
            pres = [c[1] for c in p.conds if c[0] == opt]
            if opt is None:
                # the entry may have been decided present/absent by a branch: find it in the conditions
                for c in p.conds:
                    if c[0][0] == "vfield" and c[0][2] == "Ok" and c[0][1][0] == "may_load" and c[0][1][1] == ALW and isinstance(c[1], str):
                        opt, pres = c[0], [c[1]]
            if opt is None:
                good = False
            elif pres == ["Some"]:
                good = good and r == ("call", "cosmwasm_std::to_json_binary", (("vfield", opt, "Some", "0"),))
            elif pres == ["None"]:
                good = good
            else:
                good = good and r == ("call", "cosmwasm_std::to_json_binary", (("unwrap_or", opt, ("default", "?")),))
        ctx.ob("R19.3", "query/Allowance", good, sites=[e.site for e in reads],
               detail="Allowance query does not return ALLOWANCES[(validated owner, validated spender)]",
               sample={"reads": [repr(e)[:200] for e in reads]})
    ctx.floor("R19.3", "Allowance query paths", n, 1)
    for variant, item, who, other in (("AllAllowances", ALW, "owner", "spender"), ("AllSpenderAllowances", ALWS, "spender", "owner")):
        n = 0
        for p in groups.get(variant, []):
            if p.is_err():
                continue
            L = extract(p)
            if L is None or L.rng is None:
                continue
            n += 1
            r = L.rng
            pre = r[2][0]
            src = ("vfield", ("param", "msg"), variant, who)
            good = pre[0] == "call" and pre[1].endswith("::prefix") and pre[2][0] == item
            if good:
                k = pre[2][1]
                good = k[0] == "vfield" and k[2] == "Ok" and k[1][0] == "call" and k[1][1].endswith("addr_validate") and k[1][2][-1] == src
            ctx.ob("R19.3", "query/%s/source" % variant, good, detail="%s does not range over %s.prefix(validated %s): %s"
                   % (variant, "ALLOWANCES" if item == ALW else "ALLOWANCES_SPENDER", who, show(r)[:300]),
                   sample={"range": show(r)[:300]})
            # what one listed entry is made of: the map closure's Ok result (chain form) or the value the loop pushes
            produced = []
            for clos in L.maps:
                if clos[0] != "closure":
                    continue
                for cp in closure_summary(ctx, clos) or []:
                    rv = cp.ret
                    if rv[0] == "variant" and rv[2] == "Ok":
                        produced.append(rv[3][0][1])
            if L.loop is not None:
                if not L.took:
                    ctx.ob("R19.3", "query/%s/fields" % variant, True, trivial=True)
                    continue
                if L.pushed is not None:
                    produced.append(L.pushed)
            okmap = False
            why = "no listed entry found (neither a mapping closure nor a pushing loop)"
            for info in produced:
                if info[0] == "struct":
                    f = dict(info[2])
                    al, ex, ad = f.get("allowance"), f.get("expires"), f.get(other)
                    if al and ex and ad and al[0] == "field" and al[2] == "allowance" and ex[0] == "field" \
                            and ex[2] == "expires" and al[1] == ex[1] and al[1][0] == "field" and al[1][2] == "1" \
                            and ad == ("field", al[1][1], "0"):
                        okmap = True
                    else:
                        okmap = False
                        why = "listing entry is not {%s: key, allowance: entry.allowance, expires: entry.expires}: %s" % (other, show(info)[:300])
                        break
            ctx.ob("R19.3", "query/%s/fields" % variant, okmap, detail=why, sample={"entry": show(produced[0])[:200] if produced else None})
        ctx.floor("R19.3", "%s listing paths" % variant, n, 1)
