"""C17 - cw1: the admin set changes only by admins while mutable; freezing is permanent."""
from ..engine import show
from ..idioms import dispatch, entry_points, update_base, loaded_from
from ..prims import is_rmw
from .cw1common import SENDER, items, admin_cond, NB_SUB

ID = "C17"
RULES = {
    "R17.1": "every ADMIN_LIST write outside instantiate is on a path with stored.mutable = true and "
             "is_admin(stored, info.sender) = true decided before the write",
    "R17.2": "the value saved is the stored list with only `admins` replaced, or only `mutable` set to false - `mutable` is "
             "never written from anything but the literal false",
    "R17.3": "cw1-subkeys reaches the same two handlers and adds no other writer of ADMIN_LIST (all entry points of both contracts)",
    "R17.5": "the two handlers take effect: every successful Freeze stores the list with mutable := false and every successful "
             "UpdateAdmins stores the list with `admins` replaced (in both contracts) - an Ok answer that stored nothing would "
             "leave a list its admins believe frozen still mutable",
    "R17.4": "every write to the subkey ALLOWANCES / PERMISSIONS maps is guarded by is_admin(stored, info.sender) = true, except "
             "the subkey's own spend (update of ALLOWANCES[info.sender] that subtracts the sent coins)",
}


def run(ctx):
    ctx.rule_texts.update(RULES)
    ctx.assumptions += ["A-ATOMIC", "A-PRIMS", "slice::iter().any(pred) is existential membership"]
    ADMIN, ALW, PERM = items(ctx)
    if not ctx.ob("R17.1", "anchor:storage namespaces", None not in (ADMIN, ALW, PERM), trivial=True,
                  detail="admin_list / allowances / permissions namespaces not found"):
        return
    n_admin_writes, n_grant, n_effect = set(), set(), set()
    for crate in ("cw1_whitelist", "cw1_subkeys"):
        eps = entry_points(ctx.facts, crate)
        for ename, fn in sorted(eps.items()):
            paths = ctx.summarise(fn)
            groups = dispatch(paths) if ename in ("execute",) else {None: paths}
            for variant, ps in sorted(groups.items(), key=lambda x: str(x[0])):
                key = "%s::%s/%s" % (crate, ename, variant)
                for p in ps:
                    if p.is_err():
                        continue
                    for i, e in enumerate(p.effects):
                        if e.kind != "write":
                            continue
                        if e.item == ADMIN:
                            if ename == "instantiate":
                                ctx.ob("R17.3", key + "/initial list", True, trivial=True)
                                continue
                            n_admin_writes.add((crate, variant))
                            check_admin_write(ctx, p, i, e, key, ADMIN)
                        elif e.item in (ALW, PERM):
                            n_grant.add((variant, "A" if e.item == ALW else "P", e.op))
                            pol, _ = admin_cond(ctx, p, ADMIN, SENDER, before=i)
                            good = pol is True
                            why = "admin"
                            if not good and e.item == ALW and e.key == SENDER and is_rmw(e) and e.op != "remove":
                                base, fields = update_base(e.value)
                                b = fields.get("balance")
                                if set(fields) == {"balance"} and b and b[0] == "vfield" and b[2] == "Ok" and b[1][0] == "call" \
                                        and b[1][1] == NB_SUB and b[1][2][0] == ("field", base, "balance") \
                                        and base in (("vfield", e.old, "Some", "0"), e.old):
                                    good = True
                                    why = "own spend"
                            ctx.ob("R17.4", key + "/%s %s in %s" % ("ALLOWANCES" if e.item == ALW else "PERMISSIONS", e.op, e.site[2]),
                                   good, sites=[e.site],
                                   detail="subkey grant written at key %s without is_admin(stored ADMIN_LIST, info.sender) = true before the write"
                                          % show(e.key)[:120], sample={"write": repr(e)[:200], "authority": why})
                    if ename == "execute" and variant in ("Freeze", "UpdateAdmins"):
                        aw = [e for e in p.effects if e.kind == "write" and e.item == ADMIN and e.op != "remove"]
                        want = "mutable" if variant == "Freeze" else "admins"
                        took = False
                        for e in aw:
                            _, fields = update_base(e.value)
                            if want in fields and (want != "mutable" or fields["mutable"] == ("lit", False)):
                                took = True
                        if not took and variant == "UpdateAdmins":
                            # nothing to store when the path decided the new list equals the stored one
                            took = any(c[0][0] == "cmp" and c[0][1] == "eq" and c[1] is True and
                                       any(x[0] == "field" and x[2] == "admins" and loaded_from(x[1]) is not None and loaded_from(x[1])[0] == ADMIN
                                           for x in (c[0][2], c[0][3])) for c in p.conds)
                        n_effect.add((crate, variant))
                        ctx.ob("R17.5", key + "/takes effect", took, sites=[e.site for e in aw],
                               detail="%s returns Ok on a path that does not store the list with %s" %
                                      (variant, "mutable := false" if variant == "Freeze" else "the new `admins`"),
                               sample={"writes": len(aw)})
                ctx.ob("R17.3", key, True, trivial=True)
    ctx.floor("R17.1", "ADMIN_LIST-writing (contract, variant) pairs outside instantiate", len(n_admin_writes), 4)
    ctx.floor("R17.4", "ALLOWANCES/PERMISSIONS writes (variant, map, op)", len(n_grant), 5)
    ctx.floor("R17.5", "Freeze / UpdateAdmins Ok-paths per contract", len(n_effect), 4)


def check_admin_write(ctx, p, i, e, key, ADMIN):
    if e.op == "remove":
        ctx.ob("R17.2", key + "/remove", False, detail="ADMIN_LIST removed", sites=[e.site])
        return
    base, fields = update_base(e.value)
    lf = loaded_from(base)
    if lf is None or lf[0] != ADMIN or lf[2] != e.ver:
        ctx.ob("R17.2", key + "/write in %s" % e.site[2], False, sites=[e.site],
               detail="ADMIN_LIST saved with a value not derived from the stored list: %s" % show(e.value)[:200])
        return
    mut = any(c[0] == ("field", base, "mutable") and c[1] is True and c[3] <= i for c in p.conds)
    pol, lst = admin_cond(ctx, p, ADMIN, SENDER, before=i)
    ctx.ob("R17.1", key + "/write in %s" % e.site[2], mut and pol is True and lst == base, sites=[e.site],
           detail="ADMIN_LIST written without both guards (stored.mutable = true: %s, is_admin(stored, info.sender) = true: %s)" % (mut, pol),
           sample={"guards": ["stored.mutable", "is_admin(stored, info.sender)"], "fields": sorted(fields)})
    good = set(fields) <= {"admins", "mutable"} and len(fields) <= 1 or (set(fields) == {"admins"})
    if "mutable" in fields and fields["mutable"] != ("lit", False):
        good = False
    ctx.ob("R17.2", key + "/value in %s" % e.site[2], bool(good), sites=[e.site],
           detail="saved list changes %s (mutable := %s); only `admins`, or `mutable := false`, may change"
                  % (sorted(fields), show(fields.get("mutable")) if "mutable" in fields else "-"),
           sample={"changed": sorted(fields)})
