"""C20 - all list queries paginate completely: every item once, in order, within limits."""
from ..engine import show, OPTION
from ..idioms import dispatch, entry_points, storage_items, walk
from .listing import extract, page_size_problem, deep_walk

ID = "C20"
NONE = ("variant", OPTION, "None", ())
RULES = {
    "R20.1": "page size: the number of items taken is min(limit.unwrap_or(10), 30) of the query's own `limit` parameter "
             "(default 10 and maximum 30 are read from the constants as compiled)",
    "R20.2": "cursor: the caller's cursor becomes an exclusive bound placed in the min slot of an Ascending range and in the max "
             "slot of a Descending range; the other slot is None; without cursor both slots are None",
    "R20.3": "filters are applied before the page is cut: nothing filters the iterator after take(); and between the range and "
             "the cut only per-item filters (filter / filter_map) occur - nothing that ends the iteration early (take_while, "
             "map_while) or passes over items by position (skip, skip_while, step_by)",
    "R20.4": "source: the range is over the map the listing is about and, for prefixed listings, under the prefix given by the "
             "query (owner / spender / proposal id)",
    "R20.5": "cursor encoding matches the key: address keys use ExclusiveRaw(<bytes of the address string>) or "
             "Bound::exclusive(<validated address>); numeric ids use Bound::exclusive(id)",
    "R20.7": "the by-spender allowance listing ranges over an index that is kept in step with the owner map on every path and is "
             "rebuilt completely by migrate (shared with C19 R19.1 / R19.2 / R19.4)",
    "R20.6": "cw3-flex ListVoters forwards start_after and limit unchanged to the group's ListMembers",
}

# (crate, QueryMsg variant) -> (namespace owner crate, namespace, prefix field or None, cursor field, order, key kind)
LISTINGS = {
    ("cw20_base", "AllAllowances"): ("cw20_base", "allowance", "owner", "start_after", "Ascending", "addr"),
    ("cw20_base", "AllSpenderAllowances"): ("cw20_base", "allowance_spender", "spender", "start_after", "Ascending", "addr"),
    ("cw20_base", "AllAccounts"): ("cw20_base", "balance", None, "start_after", "Ascending", "addr"),
    ("cw1_subkeys", "AllAllowances"): ("cw1_subkeys", "allowances", None, "start_after", "Ascending", "addr"),
    ("cw1_subkeys", "AllPermissions"): ("cw1_subkeys", "permissions", None, "start_after", "Ascending", "addr"),
    ("cw3_fixed_multisig", "ListProposals"): ("cw3_fixed_multisig", "proposals", None, "start_after", "Ascending", "u64"),
    ("cw3_fixed_multisig", "ReverseProposals"): ("cw3_fixed_multisig", "proposals", None, "start_before", "Descending", "u64"),
    ("cw3_fixed_multisig", "ListVotes"): ("cw3_fixed_multisig", "votes", "proposal_id", "start_after", "Ascending", "addr"),
    ("cw3_fixed_multisig", "ListVoters"): ("cw3_fixed_multisig", "voters", None, "start_after", "Ascending", "addr"),
    ("cw3_flex_multisig", "ListProposals"): ("cw3_fixed_multisig", "proposals", None, "start_after", "Ascending", "u64"),
    ("cw3_flex_multisig", "ReverseProposals"): ("cw3_fixed_multisig", "proposals", None, "start_before", "Descending", "u64"),
    ("cw3_flex_multisig", "ListVotes"): ("cw3_fixed_multisig", "votes", "proposal_id", "start_after", "Ascending", "addr"),
    ("cw4_group", "ListMembers"): ("cw4_group", "members", None, "start_after", "Ascending", "addr"),
    ("cw4_stake", "ListMembers"): ("cw4_stake", "members", None, "start_after", "Ascending", "addr"),
    ("cw20_ics20", "ListAllowed"): ("cw20_ics20", "allow_list", None, "start_after", "Ascending", "addr"),
}
OPAQUE = {"cw3::proposal::Proposal::current_status"}


def run(ctx):
    ctx.rule_texts.update(RULES)
    ctx.assumptions += ["A-PRIMS: cw-storage-plus range()/keys()/prefix().range() iterate in key order between the given bounds; "
                        "Bound::exclusive / ExclusiveRaw exclude the bound itself; Iterator::take(n) yields at most n items"]
    ctx.not_decided += ["cw-storage-plus iteration order and bound semantics (external crate)", "the group's own ListMembers "
                        "behind cw3-flex ListVoters is checked as cw4-group / cw4-stake ListMembers"]
    seen = 0
    crates = sorted(set(c for c, _ in LISTINGS))
    found = {}
    for crate in crates:
        eps = entry_points(ctx.facts, crate)
        if "query" not in eps:
            ctx.ob("R20.1", "anchor:%s::query" % crate, False, detail="query entry point not found", trivial=True)
            continue
        groups = dispatch(ctx.summarise(eps["query"], opaque=OPAQUE))
        # any variant with a take() that is not in the table is checked generically (new listings must obey the rule too)
        for variant, ps in sorted(groups.items(), key=lambda x: str(x[0])):
            spec = LISTINGS.get((crate, variant))
            for p in ps:
                if p.is_err():
                    continue
                L = extract(p)
                if spec is None:
                    if L is not None and variant is not None:
                        r = L.rng
                        unb = r[2][1] == NONE and r[2][2] == NONE
                        if L.page is not None or not unb:
                            # a paginated listing the table does not know (a new query): the same rules, with the map, prefix,
                            # cursor field and order read from the listing itself
                            key = "%s::query/%s (not in the table)" % (crate, variant)
                            ispec, item, prob = infer_spec(ctx, p, crate, variant, L)
                            if prob:
                                ctx.ob("R20.1", key + "/shape", False, detail="new paginated listing %s: %s" % (variant, prob))
                            elif L.problem or L.page is None:
                                ctx.ob("R20.1", key + "/shape", False, detail="new listing %s: %s" % (
                                    variant, L.problem or "the range is bounded by a cursor but not cut to a page"))
                            else:
                                check_listing(ctx, p, key, crate, variant, ispec, L, item=item)
                    continue
                key = "%s::query/%s" % (crate, variant)
                if L is None or L.problem or L.page is None:
                    why = "no storage range feeds the answer" if L is None else (L.problem or "the range is not cut to a page "
                                                                                 "(no take(n), no `len < n` loop guard)")
                    ctx.ob("R20.1", key + "/shape", False, detail="%s: %s" % (why, show(p.ret)[:200]))
                    continue
                found[(crate, variant)] = found.get((crate, variant), 0) + 1
                seen += 1
                check_listing(ctx, p, key, crate, variant, spec, L)
    for k in sorted(LISTINGS):
        ctx.ob("R20.1", "floor:%s::%s analysed" % k, found.get(k, 0) >= 2, trivial=True,
               detail="listing %s::%s not found with and without cursor (paths %d)" % (k[0], k[1], found.get(k, 0)))
    ctx.floor("R20.1", "listing paths", seen, 30)
    check_flex_voters(ctx)
    from . import C19
    sub = type(ctx)(ctx.pid, ctx.facts, ctx.engine, ctx.tier, ctx.tree_hash)
    C19.run(sub)
    for k in sub.order:
        o = sub.obs[k]
        if o.rule in ("R19.1", "R19.2", "R19.4") and not o.key.startswith(("anchor", "floor")):
            ctx.ob("R20.7", o.key, True if o.status == "discharged" else (None if o.status == "undecided" else False),
                   detail="; ".join(o.details), sites=o.sites, sample=o.sample, trivial=o.trivial)


def infer_spec(ctx, p, crate, variant, L):
    """(spec, item, problem) for a listing that is not in LISTINGS: source map, prefix field, cursor field, order and key kind as the
    listing's own range shows them.  Which map a new listing *should* read cannot be known; everything else is checked."""
    msgv = ("param", "msg")
    rng = L.rng
    src = rng[2][0]
    prefix = None
    if src[0] in ("const", "submap"):
        item = src
    elif src[0] == "call" and src[1].endswith("::prefix") and src[2] and src[2][0][0] in ("const", "submap"):
        item = src[2][0]
        k = src[2][1]
        fs = [x[3] for x in walk(k) if x[0] == "vfield" and x[1] == msgv and x[2] == variant]
        if len(set(fs)) != 1:
            return None, None, "prefix %s is not one field of the query" % show(k)[:120]
        prefix = fs[0]
    else:
        return None, None, "unrecognised range source %s" % show(src)[:120]
    od = rng[2][3]
    order = od[2] if od[0] == "variant" else None
    # the cursor: the query field that feeds a bound on the paths that have one
    cands = set()
    for b in (rng[2][1], rng[2][2]):
        for x in walk(b):
            if x[0] == "vfield" and x[1] == msgv and x[2] == variant and x[3] != prefix:
                cands.add(x[3])
    if not cands:
        a = ctx.facts.adt(None) if False else None
        # no cursor on this path: name it from the variant's other paths (start_after / start_before by convention)
        cands = {"start_after"} if order != "Descending" else {"start_before"}
    if len(cands) != 1:
        return None, None, "more than one query field bounds the range: %s" % sorted(cands)
    cursor = list(cands)[0]
    kind = "u64"
    for b in (rng[2][1], rng[2][2]):
        for x in walk(b):
            if (x[0] == "variant" and x[2] == "ExclusiveRaw") or (x[0] == "call" and x[1].endswith(("addr_validate", "maybe_addr"))):
                kind = "addr"
    return (crate, None, prefix, cursor, order, kind), item, None


def check_listing(ctx, p, key, crate, variant, spec, L, item=None):
    rng = L.rng
    ns_crate, ns, prefix, cursor_field, order, kind = spec
    if item is None:
        it = storage_items(ctx.engine, ns_crate)
        item = it.get(ns)
    msgv = ("param", "msg")
    # ---- R20.1
    lim = ("vfield", msgv, variant, "limit")
    prob = page_size_problem(p, L.page, lim)
    ctx.ob("R20.1", key + "/limit", (None if prob.startswith("UNDECIDED") else False) if prob else True,
           detail="%s; expected min(limit.unwrap_or(10), 30)" % prob, sample={"page": show(L.page)[:120], "how": L.page_how})
    # ---- R20.3
    skipped = L.page_how == "take" and L.took and L.pushed is None
    ctx.ob("R20.3", key + "/filter before take", not L.after and not skipped,
           detail="the page is cut before filtering: %s" % ([show(x)[:120] for x in L.after] or "an element taken after take() is skipped by the loop body"),
           sample={"before": [show(x[2][1])[:80] for x in L.before], "page_how": L.page_how})
    # ... and what sits between the range and the page cut only drops single items: an adapter that ends the iteration
    # (take_while, map_while) or passes over items by position (skip, skip_while, step_by) hides everything behind an item
    # from every later page as well
    cutters = [x for x in L.before if not x[1].endswith(("Iterator::filter", "Iterator::filter_map"))]
    ctx.ob("R20.3", key + "/only per-item filters before take", not cutters,
           detail="the iteration is cut short or items are passed over by position before the page is taken: %s"
                  % [x[1].split("::")[-1] + "(" + show(x[2][1])[:80] + ")" for x in cutters])
    # ---- R20.4
    src = rng[2][0]
    if prefix is None:
        good = src == item
        why = "listing ranges over %s, not over the %s map" % (show(src)[:100], ns)
    else:
        pf = ("vfield", msgv, variant, prefix)
        good = src[0] == "call" and src[1].endswith("::prefix") and src[2][0] == item
        if good:
            k = src[2][1]
            good = k == pf or (k[0] == "vfield" and k[2] == "Ok" and k[1][0] == "call" and k[1][1].endswith("addr_validate") and k[1][2][-1] == pf)
        why = "listing ranges over %s, not over %s.prefix(<%s>)" % (show(src)[:140], ns, prefix)
    ctx.ob("R20.4", key + "/source", good, detail=why, sample={"source": show(src)[:140]})
    # ---- R20.2 / R20.5
    mn, mx, od = rng[2][1], rng[2][2], rng[2][3]
    cur = ("vfield", msgv, variant, cursor_field)
    has_cursor = [c[1] for c in p.conds if c[0] == cur]
    maybe = [c for c in p.conds if c[0][0] == "vfield" and c[0][2] == "Ok" and c[0][1][0] == "call" and c[0][1][1].endswith("maybe_addr")
             and c[0][1][2][-1] == cur and isinstance(c[1], str)]
    ordv = od[2] if od[0] == "variant" else None
    ctx.ob("R20.2", key + "/order", ordv == order, detail="iteration order is %s, listing is specified %s" % (ordv, order), sample={"order": ordv})
    slot, other = (mn, mx) if ordv == "Ascending" else (mx, mn)
    if has_cursor == ["None"] or (maybe and maybe[0][1] == "None"):
        ctx.ob("R20.2", key + "/no cursor", mn == NONE and mx == NONE,
               detail="without cursor the range is bounded: (%s, %s)" % (show(mn)[:80], show(mx)[:80]), sample={"bounds": "None, None"})
        return
    prob = None
    if other != NONE:
        prob = "the slot opposite to the cursor is %s, not None" % show(other)[:100]
    elif not (slot[0] == "variant" and slot[2] == "Some"):
        prob = "cursor given but the %s slot is %s" % ("min" if ordv == "Ascending" else "max", show(slot)[:100])
    else:
        b = slot[3][0][1]
        cval = ("vfield", cur, "Some", "0")
        if b[0] == "variant" and b[1].endswith("Bound"):
            if b[2] not in ("ExclusiveRaw", "Exclusive"):
                prob = "cursor bound is %s: the last item of the previous page is returned again / skipped" % b[2]
            elif b[2] == "ExclusiveRaw":
                if kind != "addr":
                    prob = "raw string cursor on a non-address key"
                elif b[3][0][1] != cval:
                    prob = "raw cursor bytes %s are not the caller's cursor string" % show(b[3][0][1])[:100]
        elif b[0] == "call" and b[1].endswith("Bound::exclusive"):
            x = b[2][0]
            if kind == "u64":
                if x != cval:
                    prob = "exclusive bound %s is not the caller's cursor id" % show(x)[:100]
            else:
                okx = (x[0] == "vfield" and x[2] == "Some" and x[1][0] == "vfield" and x[1][1][0] == "call" and x[1][1][1].endswith("maybe_addr")
                       and x[1][1][2][-1] == cur) or \
                      (x[0] == "vfield" and x[2] == "Ok" and x[1][0] == "call" and x[1][1].endswith("addr_validate") and x[1][2][-1] == cval)
                if not okx:
                    prob = "exclusive bound %s is not the validated cursor address" % show(x)[:120]
        elif b[0] == "call" and b[1].endswith(("Bound::inclusive", "Bound::inclusive_int")):
            prob = "cursor bound is inclusive: the last item of the previous page is returned again"
        else:
            prob = "unrecognised cursor bound %s" % show(b)[:120]
    ctx.ob("R20.2", key + "/cursor", prob is None, detail=prob, sample={"bound": show(slot)[:160]})


def check_flex_voters(ctx):
    eps = entry_points(ctx.facts, "cw3_flex_multisig")
    groups = dispatch(ctx.summarise(eps["query"], opaque=OPAQUE))
    n = 0
    for p in groups.get("ListVoters", []):
        if p.is_err():
            continue
        q = [x for x in deep_walk(p, p.ret) if x[0] == "variant" and x[2] == "ListMembers"]
        n += 1
        good = len(q) >= 1 and dict(q[0][3]) == {"start_after": ("vfield", ("param", "msg"), "ListVoters", "start_after"),
                                                "limit": ("vfield", ("param", "msg"), "ListVoters", "limit")}
        extra = [x for x in deep_walk(p, p.ret) if x[0] == "call" and x[1].endswith(("Iterator::take", "Iterator::skip", "Iterator::filter"))]
        ctx.ob("R20.6", "cw3_flex_multisig::query/ListVoters", good and not extra,
               detail="ListVoters does not forward (start_after, limit) unchanged to the group's ListMembers: %s" % show(p.ret)[:240],
               sample={"forwarded": show(q[0])[:200] if q else None})
    ctx.floor("R20.6", "flex ListVoters paths", n, 1)
