"""C04 - cw3: threshold arithmetic (narrow structural clauses; the numeric formulas are not decided)."""
from ..engine import show
from ..idioms import nf, walk, norm_cmp
from .cw3common import IS_PASSED, VOTES_NEEDED

ID = "C04"
RULES = {
    "R04.1": "zero Yes never passes: every path of Proposal::is_passed whose result can be true either carries a decision "
             "implying votes.yes != 0, or returns a comparison that is false at votes.yes = 0 whatever the other inputs are",
    "R04.2": "fixed-point safety: in votes_needed, with weight in [0, 2^64-1] and the percentage in [0,1], interval evaluation "
             "shows PRECISION_FACTOR * weight and the + PRECISION_FACTOR - 1 stay below 2^128 and the final `as u64` is lossless",
    "R04.3": "round-up idiom: votes_needed returns (x + F - 1) / F with the same constant F that scales the weight",
    "R04.4": "sibling agreement of the decision arms: every non-constant result of is_passed is the non-strict comparison "
             "needed <= votes.yes and every result of is_rejected is the strict comparison needed < votes.no (an arm that deviates "
             "in strictness lets one tally be both passed and rejected, or rejects a proposal that can still pass); in each "
             "(threshold kind, expiry) case both functions measure against the same base weight, the rejection side with the "
             "complementary percentage 1 - p",
    "R04.5": "nothing else decides: on every path of is_passed / is_rejected each decision is the threshold kind, the expiry, "
             "votes.yes == 0, the quorum test (votes.total() against votes_needed(total_weight, quorum)) or the arm's own final "
             "comparison in if-form; a constant result is False from is_passed under yes == 0 / quorum not reached, or the "
             "if-form of the final comparison - any other condition (a veto share, a time window, a special-cased weight) makes "
             "the decision differ from the documented formula for some tally",
    "R04.8": "the tally is the votes cast (shared with C03 R03.1): each ballot's weight is added to exactly the tally field of its vote "
             "and Votes::total sums all four fields",
    "R04.7": "decisions are about the recorded tally: inside the cw3 package every call of is_passed / is_rejected / current_status "
             "is made on the proposal the calling method was invoked on (`self`), never on a copy with votes added - the early "
             "decision is sound because is_passed / is_rejected bound the outstanding votes themselves; a forecast that completes the "
             "tally and asks again gets the quorum for free",
    "R04.6": "nine decimals are exact: the fixed-point factor F of votes_needed is a multiple of 10^9, so F * weight * p is an "
             "integer for every percentage with up to nine decimal places and the ceiling division is exact",
}
U64 = 2 ** 64 - 1
U128 = 2 ** 128 - 1


def interval(t, env):
    """interval abstract interpretation of a straight-line term; returns (lo, hi) or None"""
    k = t[0]
    if t in env:
        return env[t]
    if k == "lit" and isinstance(t[1], int) and not isinstance(t[1], bool):
        return (t[1], t[1])
    if k == "bin":
        a, b = interval(t[2], env), interval(t[3], env)
        if a is None or b is None:
            return None
        op = t[1]
        if op == "add":
            return (a[0] + b[0], a[1] + b[1])
        if op == "sub":
            return (max(0, a[0] - b[1]), a[1] - b[0])
        if op == "mul":
            return (a[0] * b[0], a[1] * b[1])
        if op == "div":
            if b[0] <= 0:
                return None
            return (a[0] // b[1], a[1] // b[0])
        return None
    if k == "call" and t[1].endswith("mul_floor"):
        a = interval(t[2][0], env)
        if a is None:
            return None
        return (0, a[1])       # x * p with p in [0,1]  (assumption: validated threshold / its complement)
    if k == "cast":
        return interval(t[3], env)
    return None


def overflow_sites(t, env, out):
    """every checked op must stay inside u128; every narrowing cast must be lossless"""
    for x in walk(t):
        if x[0] == "bin" and x[1] in ("add", "mul", "sub"):
            iv = interval(x, env)
            if iv is None:
                out.append(("cannot bound %s" % show(x)[:120], False))
            elif iv[1] > U128:
                out.append(("%s may reach %d > u128::MAX" % (show(x)[:120], iv[1]), False))
            else:
                out.append(("%s <= %d" % (show(x)[:80], iv[1]), True))
        if x[0] == "cast":
            iv = interval(x[3], env)
            lim = {"u64": U64, "u32": 2 ** 32 - 1, "u8": 255, "usize": U64}.get(x[2])
            if iv is None or lim is None:
                out.append(("cannot bound cast operand %s" % show(x[3])[:120], False))
            elif iv[1] > lim:
                out.append(("cast to %s of %s may truncate (max %d)" % (x[2], show(x[3])[:100], iv[1]), False))
            else:
                out.append(("cast to %s lossless (max %d)" % (x[2], iv[1]), True))


def run(ctx):
    ctx.rule_texts.update(RULES)
    ctx.assumptions += ["percentages passed to votes_needed are in [0,1] (Threshold::validate, and 1 - p of such a value)",
                        "A-OVF: primitive u64/u128 arithmetic aborts on overflow", "Uint128::mul_floor(x, p) <= x for p <= 1"]
    ctx.not_decided += ["equality of is_passed / is_rejected with the documented count/percentage/quorum formulas",
                        "soundness of early decisions over all completions of the outstanding votes",
                        "that a tally is never both passed and rejected", "18-decimal behaviour of Decimal"]
    eng = ctx.engine
    # ---- R04.1
    b = ctx.facts.bodies.get(IS_PASSED)
    if not ctx.ob("R04.1", "anchor:Proposal::is_passed", b is not None, detail="cw3 Proposal::is_passed not found", trivial=True):
        return
    paths = ctx.summarise(IS_PASSED)
    yes = ("field", ("field", ("param", "self"), "votes"), "yes")
    n = 0
    for p in paths:
        r = norm_cmp(p.ret)
        if r == ("lit", False):
            continue
        n += 1
        arm = [c[1] for c in p.conds if c[0] == ("field", ("param", "self"), "threshold")]
        extra = [("expired" if c[1] else "not expired") for c in p.conds if c[0][0] == "call" and c[0][1].endswith("is_expired")]
        key = "is_passed/%s%s" % (arm[0] if arm else "?", ("/" + extra[0]) if extra else "")
        nonzero = False
        for c in p.conds:
            t, o = c[0], c[1]
            if t[0] == "cmp":
                def lit(x):
                    return x[1] if x[0] == "lit" and isinstance(x[1], int) and not isinstance(x[1], bool) else None
                if t[1] == "eq" and set((t[2], t[3])) == set((yes, ("lit", 0))) and o is False:
                    nonzero = True
                # k < yes / k <= yes decided true
                if t[3] == yes and lit(t[2]) is not None and o is True and ((t[1] == "lt" and lit(t[2]) >= 0) or (t[1] == "le" and lit(t[2]) >= 1)):
                    nonzero = True
                # yes < k / yes <= k decided false
                if t[2] == yes and lit(t[3]) is not None and o is False and ((t[1] == "lt" and lit(t[3]) >= 1) or (t[1] == "le" and lit(t[3]) >= 0)):
                    nonzero = True
        strict = r[0] == "cmp" and r[1] == "lt" and r[3] == yes
        floor1 = r[0] == "cmp" and r[1] == "le" and r[3] == yes and r[2][0] == "call" and r[2][1] == "max" and ("lit", 1) in r[2][2]
        good = nonzero or strict or floor1 or r == ("lit", False)
        ctx.ob("R04.1", key, good,
               detail="is_passed can return true with zero Yes weight on this arm: result %s is true at votes.yes = 0 when the "
                      "needed weight evaluates to 0 (e.g. every opinion abstains), and no decision on the path excludes yes = 0"
                      % show(r)[:200],
               sites=[(b.file, b.line, b.path)], sample={"result": show(r)[:200], "yes_nonzero_decided": nonzero})
    ctx.floor("R04.1", "is_passed paths that can return true", n, 4)
    check_siblings(ctx, paths)
    from ..idioms import check_overflow_profile
    check_overflow_profile(ctx)
    check_decisions(ctx, paths)
    check_receivers(ctx)
    if ctx.pid == ID:
        # R04.8 = C03 R03.1: the tally the decision is made on is the sum of the votes cast (add_vote adds the ballot's weight to the
        # field of its vote, total() sums the four fields) - a tally that loses or misfiles a vote makes the exact formula decide
        # about other votes than the ones cast
        from . import C03
        sub = type(ctx)("C03", ctx.facts, ctx.engine, ctx.tier, ctx.tree_hash)
        C03.run(sub)
        for k in sub.order:
            o = sub.obs[k]
            if o.rule == "R03.1" and not o.key.startswith(("anchor", "floor")):
                ctx.ob("R04.8", o.key, True if o.status == "discharged" else (None if o.status == "undecided" else False),
                       detail="; ".join(o.details), sites=o.sites, sample=o.sample, trivial=o.trivial)
    # ---- R04.2 / R04.3
    vb = ctx.facts.bodies.get(VOTES_NEEDED)
    if not ctx.ob("R04.2", "anchor:votes_needed", vb is not None, detail="cw3 votes_needed not found", trivial=True):
        return
    vps = ctx.summarise(VOTES_NEEDED)
    ctx.ob("R04.3", "votes_needed/single path", len(vps) == 1, detail="votes_needed has %d paths" % len(vps), trivial=True)
    for p in vps:
        r = p.ret
        env = {("param", "weight"): (0, U64)}
        out = []
        overflow_sites(r, env, out)
        for i, (msg, ok) in enumerate(out):
            ctx.ob("R04.2", "votes_needed/op%d" % i, ok, detail=msg, sites=[(vb.file, vb.line, vb.path)], sample={"bound": msg})
        ctx.floor("R04.2", "bounded operations", len(out), 3)
        # round-up idiom
        good = False
        why = "result %s is not cast((x + F - 1) / F)" % show(r)[:200]
        body = r[3] if r[0] == "cast" else r
        if body[0] == "bin" and body[1] == "div" and body[3][0] == "lit":
            F = body[3][1]
            n_ = nf(body[2])
            if n_.const == F - 1 and len(n_.atoms) == 1 and list(n_.atoms.values())[0] == 1:
                x = list(n_.atoms.keys())[0]
                if x[0] == "call" and x[1].endswith("mul_floor"):
                    scaled = x[2][0]
                    if scaled[0] == "bin" and scaled[1] == "mul" and ("lit", F) in (scaled[2], scaled[3]) \
                            and ("param", "weight") in (scaled[2], scaled[3]) and x[2][1] == ("param", "percentage"):
                        good = True
                    else:
                        why = "weight is not scaled by the same factor %d that divides the result: %s" % (F, show(scaled)[:120])
                else:
                    why = "rounded quantity is not mul_floor(F*weight, percentage): %s" % show(x)[:160]
            else:
                why = "numerator %s is not x + F - 1 with F = %d (rounding up requires adding F - 1)" % (n_.show()[:160], F)
        ctx.ob("R04.3", "votes_needed/round-up", good, detail=why, sites=[(vb.file, vb.line, vb.path)], sample={"result": show(r)[:240]})
        if good:
            ctx.ob("R04.6", "votes_needed/factor", F % (10 ** 9) == 0, sites=[(vb.file, vb.line, vb.path)],
                   detail="fixed-point factor %d is not a multiple of 10^9: a percentage with 7 to 9 decimal places is truncated before the "
                          "ceiling division, so the required Yes weight can come out one vote too low" % F, sample={"F": F})


def check_receivers(ctx):
    """R04.7: inside the cw3 package the decision functions are asked about the proposal itself"""
    from .cw3common import IS_REJECTED, CS
    DEC = {IS_PASSED, IS_REJECTED, CS}
    n = 0
    for path, b in sorted(ctx.facts.bodies.items()):
        if b.crate != "cw3" or b.kind != "fn" or "::Proposal::" not in path or path in (IS_PASSED, IS_REJECTED) or not b.argc:
            continue
        if b.locals[1].get("name") != "self":
            continue
        try:
            ps = ctx.engine.summarise(path, opaque=DEC - {path})
        except Exception:
            continue
        bad = []
        for p in ps:
            for t in [c[0] for c in p.conds] + [p.ret]:
                for x in walk(t):
                    if x[0] == "call" and x[1] in DEC and x[2]:
                        n += 1
                        r = x[2][0]
                        if r != ("param", "self"):
                            bad.append(show(r)[:120])
        ctx.ob("R04.7", "%s asks about the proposal itself" % path.split("::")[-1], not bad, sites=[(b.file, b.line, b.path)],
               detail="%s evaluates a decision function on %s, not on the proposal it was called on: a verdict for a tally that is not "
                      "the recorded one (a what-if completion) is not the early decision the rules define" % (path, bad[:2]),
               trivial=not bad)
    # (a package that routes every decision through another type has no such call at all: nothing to ask about)
    ctx.floor("R04.7", "Proposal methods examined", len([1 for k in ctx.order if ctx.obs[k].rule == "R04.7"]), 1)


def _final_cmp(t, target):
    """t is the arm's final comparison `needed <= yes` / `needed < no` (either spelling) -> normalised cmp, else None"""
    r = norm_cmp(t)
    if r[0] == "cmp" and r[1] in ("le", "lt") and (r[3] == target or r[2] == target):
        return r
    return None


def check_decisions(ctx, passed_paths):
    from .cw3common import IS_REJECTED
    if IS_REJECTED not in ctx.facts.bodies:
        return
    votes = ("field", ("param", "self"), "votes")
    yes, no = ("field", votes, "yes"), ("field", votes, "no")
    total = nf(("bin", "add", ("bin", "add", ("bin", "add", yes, no), ("field", votes, "abstain")), ("field", votes, "veto")))
    n_dec = 0
    for fn, paths, target in (("is_passed", passed_paths, yes), ("is_rejected", ctx.summarise(IS_REJECTED), no)):
        for p in paths:
            k = "%s/%s" % (fn, arm_key(p))
            yes0 = quorum_missed = None
            final = None
            other = []
            for c in p.conds:
                t, o = c[0], c[1]
                if isinstance(o, str) or (isinstance(o, tuple)):
                    continue                                   # which threshold kind / enum arm
                if t[0] == "call" and t[1].endswith("is_expired"):
                    continue
                if t[0] == "cmp" and t[1] == "eq" and set((t[2], t[3])) == set((yes, ("lit", 0))):
                    yes0 = o
                    continue
                if t[0] == "cmp" and t[1] in ("lt", "le"):
                    sides = (t[2], t[3])
                    tot = [x for x in sides if nf(x) == total and not nf(x).inexact]
                    oth = [x for x in sides if x not in tot]
                    if len(tot) == 1 and len(oth) == 1 and any(x[0] == "vfield" and x[2] == "ThresholdQuorum" and x[3] == "quorum" for x in walk(oth[0])):
                        # total < needed decided true, or needed <= total decided false: the quorum is missed
                        if t[2] == tot[0]:
                            quorum_missed = o if t[1] == "lt" else None
                        else:
                            quorum_missed = (not o) if t[1] == "le" else None
                        if quorum_missed is None:
                            other.append("quorum test of unusual strictness: %s = %s" % (show(t)[:140], o))
                        continue
                    f = _final_cmp(t, target)
                    if f is not None:
                        final = (f, o)
                        continue
                other.append("%s = %s" % (show(t)[:160], o))
            n_dec += 1
            ctx.ob("R04.5", k + "/decisions", not other, sample={"decisions": "kind, expiry, yes == 0, quorum, final comparison"},
                   detail="%s decides on a condition that is not part of the documented rule: %s" % (fn, "; ".join(other)[:400]))
            r = norm_cmp(p.ret)
            if r[0] == "lit" and isinstance(r[1], bool):
                if final is not None:
                    good = True                              # if-form of the final comparison; its strictness is R04.4's business
                elif fn == "is_passed":
                    good = r[1] is False and (yes0 is True or quorum_missed is True)
                else:
                    good = False
                ctx.ob("R04.5", k + "/constant %s" % r[1], good,
                       detail="%s returns the constant %s on a path that is not (yes == 0) / quorum missed / the if-form of its final "
                              "comparison" % (fn, r[1]), sample={"constant": r[1]})
            elif fn == "is_passed" and (yes0 is True or quorum_missed is True):
                ctx.ob("R04.5", k + "/must be false", False,
                       detail="is_passed can return %s although the path decided yes == 0 or the quorum missed" % show(r)[:120])
    ctx.floor("R04.5", "decision paths of is_passed / is_rejected", n_dec, 8)


def arm_key(p):
    arm = [c[1] for c in p.conds if c[0] == ("field", ("param", "self"), "threshold")]
    extra = [("expired" if c[1] else "not expired") for c in p.conds if c[0][0] == "call" and c[0][1].endswith("is_expired")]
    return "%s%s" % (arm[0] if arm else "?", ("/" + extra[0]) if extra else "")


def needed_parts(t):
    """t == cast(.. mul_floor(F * base, pct) ..) as produced by the inlined votes_needed -> (base, pct)"""
    for x in walk(t):
        if x[0] == "call" and x[1].endswith("mul_floor"):
            scaled, pct = x[2]
            if scaled[0] == "bin" and scaled[1] == "mul":
                base = scaled[3] if scaled[2][0] == "lit" else scaled[2]
                return base, pct
    return None


def check_siblings(ctx, passed_paths):
    from .cw3common import IS_REJECTED
    if not ctx.ob("R04.4", "anchor:Proposal::is_rejected", IS_REJECTED in ctx.facts.bodies, trivial=True, detail="is_rejected not found"):
        return
    rej_paths = ctx.summarise(IS_REJECTED)
    yes = ("field", ("field", ("param", "self"), "votes"), "yes")
    no = ("field", ("field", ("param", "self"), "votes"), "no")
    P, R = {}, {}
    for p in passed_paths:
        r = norm_cmp(p.ret)
        if r[0] == "lit":
            continue
        k = arm_key(p)
        good = r[0] == "cmp" and r[1] == "le" and r[3] == yes
        ctx.ob("R04.4", "is_passed/%s non-strict" % k, good,
               detail="is_passed arm %s returns %s; its sibling arms return `needed <= votes.yes`" % (k, show(r)[:160]), sample={"result": show(r)[:120]})
        if good:
            P[k] = r[2]
    for p in rej_paths:
        r = norm_cmp(p.ret)
        if r[0] == "lit":
            continue
        k = arm_key(p)
        good = r[0] == "cmp" and r[1] == "lt" and r[3] == no
        ctx.ob("R04.4", "is_rejected/%s strict" % k, good,
               detail="is_rejected arm %s returns %s; its sibling arms return the strict `needed < votes.no` (a non-strict arm rejects a "
                      "proposal that can still reach the threshold exactly, and lets a tally be both passed and rejected)" % (k, show(r)[:160]),
               sample={"result": show(r)[:120]})
        if good:
            R[k] = r[2]
    ctx.floor("R04.4", "is_rejected arms", len(R), 4)
    pairs = []
    for k in sorted(set(P) | set(R)):
        kind = k.split("/")[0]
        pk = k if k in P else (kind if kind in P else None)
        rk = k if k in R else (kind if kind in R else None)
        if pk is None or rk is None:
            # one side has no arm for this (threshold kind, expiry) case at all
            cand = [x for x in (P if pk is None else R) if x.split("/")[0] == kind]
            if cand:
                pk = pk or cand[0]
                rk = rk or cand[0]
            else:
                ctx.ob("R04.4", "pair/%s" % k, False, detail="case %s is decided by only one of is_passed / is_rejected" % k)
                continue
        pairs.append((k, pk, rk))
    for k, pk, rk in pairs:
        a, b = needed_parts(P[pk]), needed_parts(R[rk])
        if a is None and b is None:
            # AbsoluteCount: the configured count itself on the passing side, total_weight - count on the rejection side
            SELF = ("param", "self")
            cnt = ("vfield", ("field", SELF, "threshold"), "AbsoluteCount", "weight")
            tot = ("field", SELF, "total_weight")
            rn = nf(R[rk])
            good = P[pk] == cnt and rn.atoms == {tot: 1, cnt: -1} and not rn.const and not rn.inexact
            ctx.ob("R04.4", "pair/%s count and total - count" % k, good,
                   detail="AbsoluteCount: is_passed requires yes >= %s and is_rejected no > %s; the documented rule is the configured "
                          "count and total_weight - count (a clamped or rescaled count passes a proposal below its configured weight)"
                          % (show(P[pk])[:100], show(R[rk])[:100]), sample={"passed": show(P[pk])[:80], "rejected": show(R[rk])[:80]})
            continue
        good = a is not None and b is not None and a[0] == b[0] and b[1][0] == "bin" and b[1][1] == "sub" and b[1][3] == a[1] \
            and b[1][2][0] == "call" and b[1][2][1].endswith("Decimal::one")
        if good:
            # ... and that base and percentage are the documented ones for the case
            SELF = ("param", "self")
            V = ("field", SELF, "votes")
            tot, ab = ("field", SELF, "total_weight"), ("field", V, "abstain")
            th = ("field", SELF, "threshold")
            want = {"AbsolutePercentage": ({tot: 1, ab: -1}, ("vfield", th, "AbsolutePercentage", "percentage")),
                    "ThresholdQuorum/not expired": ({tot: 1, ab: -1}, ("vfield", th, "ThresholdQuorum", "threshold")),
                    "ThresholdQuorum/expired": ({("field", V, "yes"): 1, ("field", V, "no"): 1, ("field", V, "veto"): 1},
                                                ("vfield", th, "ThresholdQuorum", "threshold"))}.get(k)
            if want is not None:
                bn = nf(a[0])
                okb = bn.atoms == want[0] and not bn.const and not bn.inexact and a[1] == want[1]
                ctx.ob("R04.4", "pair/%s documented base" % k, okb,
                       detail="case %s measures the Yes weight against %s of base %s; documented: %s of (%s)"
                              % (k, show(a[1])[:60], bn.show()[:100], show(want[1])[:60],
                                 " + ".join(("-" if c < 0 else "") + show(t)[:30] for t, c in want[0].items())),
                       sample={"base": bn.show()[:100]})
        ctx.ob("R04.4", "pair/%s same base, complementary percentage" % k, good,
               detail="is_passed measures %s against base %s with %s, is_rejected against base %s with %s (expected the same base and 1 - p)"
                      % (k, show(a[0])[:100] if a else None, show(a[1])[:60] if a else None, show(b[0])[:100] if b else None, show(b[1])[:80] if b else None),
               sample={"base": show(a[0])[:120] if a else None})
