"""C14 - cw4: only the admin changes a group, and hooks hear every change truthfully."""
from ..engine import show, OPTION
from ..idioms import dispatch, entry_points, loaded_from, nf, walk, response_entries, controller_admin_guard
from .cw4common import SENDER, BLOCK, HEIGHT, items

ID = "C14"
RULES = {
    "R14.1": "cw4-group: every MEMBERS / TOTAL write outside instantiation is preceded on its path by "
             "ADMIN.assert_admin(deps, info.sender) = Ok with the contract's own ADMIN; no write precedes the guard",
    "R14.2": "every change of ADMIN / HOOKS outside instantiate goes through the guarded cw-controllers primitives "
             "(execute_update_admin / execute_add_hook / execute_remove_hook) called with the contract's own ADMIN and HOOKS "
             "and the entry point's unmodified `info`; the unguarded set / add_hook / remove_hook occur only in instantiate",
    "R14.3": "truthful diffs: each MemberDiff reported has key = the address string whose validated form keys the write, "
             "old = the value that write itself read (update's argument / the may_load just before remove or save, no write in "
             "between), new = the value written (Some(w) / None); exactly one diff per member write, in order",
    "R14.4": "one notification per hook: a membership-changing path contains exactly one HOOKS.prepare_hooks whose per-hook "
             "message is WasmMsg::Execute{contract_addr: hook, msg: MemberChangedHook{diffs}, funds: []} and whose results are "
             "all returned as sub-messages; a path that changes no weight (cw4-stake: new == old) writes and notifies nothing",
}
NONE = ("variant", OPTION, "None", ())


def reports_nothing(p):
    """every MemberChangedHookMsg built on this path carries a diff list that starts empty and received no push on the path"""
    found = False
    for x in walk(p.ret):
        if x[0] == "struct" and x[1].endswith("MemberChangedHookMsg"):
            found = True
            d = dict(x[2]).get("diffs")
            n = 0
            while isinstance(d, tuple) and d and d[0] == "loopvar" and n < 10:
                n += 1
                lk, var, k = d[1], d[2], d[3]
                ent = [e for e in p.effects if e.kind == "loop_enter" and e.name == lk]
                stp = [e for e in p.effects if e.kind == "loop_step" and e.name == lk]
                if not ent or var not in ent[0].value:
                    return False
                if k >= 1 and (not stp or stp[0].value.get(var) != ("loopvar", lk, var, 0)):
                    return False
                d = ent[0].value[var]
            if d != ("list", ()):
                return False
    return found


def run(ctx):
    ctx.rule_texts.update(RULES)
    ctx.assumptions += ["A-ATOMIC", "A-PRIMS: cw_controllers::Admin::assert_admin(deps, a) errs unless a is the stored admin (and "
                        "always when none is stored); execute_update_admin / execute_add_hook / execute_remove_hook check "
                        "info.sender against the Admin passed; prepare_hooks calls the closure once per registered hook"]
    ctx.not_decided += ["that a cleared admin can never be restored is cw-controllers Admin's semantics (A-PRIMS)"]
    it = items(ctx)
    if not ctx.ob("R14.1", "anchor:storage namespaces", all(v is not None for v in it.values()), trivial=True,
                  detail="cw4 storage namespaces not found"):
        return
    n_guard = n_ctl = n_diff = n_notify = 0
    for crate, pre in (("cw4_group", "g_"), ("cw4_stake", "s_")):
        ADMIN, HOOKS, MEM, TOTAL = it[pre + "admin"], it[pre + "hooks"], it[pre + "members"], it[pre + "total"]
        eps = entry_points(ctx.facts, crate)
        for ename, fn in sorted(eps.items()):
            if ename == "query":
                continue
            paths = ctx.summarise(fn)
            groups = dispatch(paths) if ename == "execute" else {None: paths}
            for variant, ps in sorted(groups.items(), key=lambda x: str(x[0])):
                key = "%s::%s/%s" % (crate, ename, variant)
                for p in ps:
                    if p.is_err():
                        continue
                    prims = [(i, e) for i, e in enumerate(p.effects) if e.kind == "prim"]
                    # ---- R14.2
                    for i, e in prims:
                        nm = e.name
                        if e.item not in (ADMIN, HOOKS) and nm.split("::")[0] in ("Admin", "Hooks"):
                            ctx.ob("R14.2", key + "/foreign controller %s" % nm, False, sites=[e.site], detail="%s on a controller that is not the contract's own" % nm)
                            continue
                        if nm in ("Admin::set", "Hooks::add_hook", "Hooks::remove_hook"):
                            ctx.ob("R14.2", key + "/" + nm, ename == "instantiate", sites=[e.site],
                                   detail="unguarded %s used outside instantiate" % nm, sample={"where": ename})
                        elif nm == "Admin::execute_update_admin":
                            n_ctl += 1
                            good = e.args[0] == ADMIN and e.args[2] == ("param", "info")
                            ctx.ob("R14.2", key + "/" + nm, good, sites=[e.site],
                                   detail="execute_update_admin not called on the own ADMIN with the unmodified info: %s" % show(("tuple", e.args))[:200],
                                   sample={"args": show(("tuple", e.args[2:]))[:160]})
                        elif nm in ("Hooks::execute_add_hook", "Hooks::execute_remove_hook"):
                            n_ctl += 1
                            good = e.args[0] == HOOKS and e.args[1] == ADMIN and e.args[3] == ("param", "info")
                            ctx.ob("R14.2", key + "/" + nm, good, sites=[e.site],
                                   detail="%s not called with (own HOOKS, own ADMIN, unmodified info): %s" % (nm, show(("tuple", e.args))[:200]),
                                   sample={"args": show(("tuple", e.args[3:]))[:160]})
                    # ---- R14.1 (cw4-group)
                    writes = [(i, e) for i, e in enumerate(p.effects) if e.kind == "write" and e.item in (MEM, TOTAL)]
                    if crate == "cw4_group" and ename != "instantiate" and writes:
                        n_guard += 1
                        first = writes[0][0]
                        okc = controller_admin_guard(p, ADMIN, SENDER, before=first)
                        ctx.ob("R14.1", key + "/guard before membership writes", okc, sites=[writes[0][1].site],
                               detail="MEMBERS/TOTAL written without ADMIN.assert_admin(deps, info.sender) = Ok before the first write",
                               sample={"guard": "ADMIN.assert_admin(deps, info.sender)"})
                    # ---- R14.3 / R14.4
                    mw = [(i, e) for i, e in enumerate(p.effects) if e.kind == "write" and e.item == MEM]
                    hooks = [(i, e) for i, e in prims if e.name == "Hooks::prepare_hooks"]
                    ents = response_entries(p)
                    if ename == "instantiate":
                        ctx.ob("R14.4", key + "/no notification at instantiation", not hooks, trivial=True)
                        continue
                    if crate == "cw4_stake" and not mw:
                        ctx.ob("R14.4", key + "/unchanged => silent", not hooks and not [h for h, m in (ents or []) if h in ("submsgs", "submsg") and "MemberChanged" in show(m)],
                               detail="notification sent on a path that changes no member weight", sample={"hooks": len(hooks)},
                               trivial=not (variant in ("Bond", "Unbond", "Receive")))
                        continue
                    if not mw and not hooks:
                        continue
                    if crate == "cw4_group" and variant != "UpdateMembers" and not mw:
                        # a notification on a path that changes no member is truthful only if it carries the empty diff list
                        # (update_members called by another message with entries that turn out to change nothing)
                        ctx.ob("R14.4", key + "/no spurious notification", not hooks or reports_nothing(p),
                               detail="member-change notification without member change")
                        continue
                    n_notify += 1
                    good = len(hooks) == 1
                    why = "%d prepare_hooks calls" % len(hooks)
                    diffs = None
                    if good:
                        h = hooks[0][1]
                        m = h.args[1]
                        # SubMsg::new(WasmMsg::Execute{contract_addr: hookaddr, msg: to_json_binary(MemberChangedHook(MemberChangedHookMsg{diffs}))?, funds: []})
                        inner = m[2][0] if m[0] == "call" and m[1].endswith("SubMsg::new") else None
                        good = False
                        why = "per-hook message is not SubMsg::new(WasmMsg::Execute{hook, MemberChangedHook{diffs}, no funds}): %s" % show(m)[:240]
                        if inner is not None and inner[0] == "variant" and inner[2] == "Execute":
                            f = dict(inner[3])
                            b = f.get("msg")
                            if f.get("contract_addr") == ("hookaddr",) and f.get("funds") == ("list", ()) and b and b[0] == "vfield" \
                                    and b[1][0] == "call" and b[1][1].endswith("to_json_binary"):
                                x = b[1][2][0]
                                if x[0] == "variant" and x[2] == "MemberChangedHook" and x[3][0][1][0] == "struct":
                                    diffs = dict(x[3][0][1][2]).get("diffs")
                                    good = diffs is not None
                        if good:
                            want = ("submsgs", ("call", "Hooks::prepare_hooks", (HOOKS, m)))
                            good = ents is not None and ents == [want]
                            why = "response sub-messages are %s, not exactly the prepare_hooks result" % [(a, show(b_)[:120]) for a, b_ in (ents or [])]
                    ctx.ob("R14.4", key + "/one notification per hook", good, detail=why, sites=[e.site for _, e in hooks],
                           sample={"diffs": show(diffs)[:200] if diffs else None})
                    if diffs is None:
                        continue
                    n_diff += check_diffs(ctx, p, key, crate, diffs, mw, MEM)
    ctx.floor("R14.1", "guarded cw4-group membership paths", n_guard, 1)
    ctx.floor("R14.2", "guarded controller calls", n_ctl, 6)
    ctx.floor("R14.3", "diffs checked", n_diff, 3)
    ctx.floor("R14.4", "notifying paths", n_notify, 3)


def diff_fields(d):
    if d[0] == "struct" and d[1].endswith("MemberDiff"):
        f = dict(d[2])
        return f.get("key"), f.get("old"), f.get("new")
    return None


def expected_diff(p, e, MEM):
    """(key string term, old, new) a truthful diff for write e must carry"""
    k = e.key
    src = k[1][2][-1] if (k[0] == "vfield" and k[2] == "Ok" and k[1][0] == "call" and k[1][1].endswith("addr_validate")) else k
    if e.op == "update":
        return src, e.old, ("variant", OPTION, "Some", (("0", e.value),))
    if e.op == "save":
        old = None
        for c in p.conds:
            x = c[0]
            if x[0] == "may_load" and x[1] == MEM and x[2] == k and c[1] == "Ok" and x[3] == e.ver:
                old = ("vfield", x, "Ok", "0")
        return src, old, ("variant", OPTION, "Some", (("0", e.value),))
    if e.op == "remove":
        old = None
        for c in p.conds:
            x = c[0]
            if x[0] == "may_load" and x[1] == MEM and x[2] == k and c[1] == "Ok" and x[3] == e.ver:
                old = ("vfield", x, "Ok", "0")
        return src, old, NONE
    return None


def same_opt(a, b):
    """Option terms equal, also Some(x?Some.0) == x when x is known Some"""
    if a == b:
        return True
    if a is None or b is None:
        return False
    for x, y in ((a, b), (b, a)):
        if x[0] == "variant" and x[2] == "Some" and x[3][0][1] == ("vfield", y, "Some", "0"):
            return True
    return False


def check_diffs(ctx, p, key, crate, diffs, mw, MEM):
    n = 0
    if crate == "cw4_stake":
        ok = diffs[0] == "list" and len(diffs[1]) == 1 and len(mw) == 1
        why = "expected exactly one diff for exactly one member write (diffs %s, writes %d)" % (show(diffs)[:160], len(mw))
        if ok:
            got = diff_fields(diffs[1][0])
            want = expected_diff(p, mw[0][1], MEM)
            ok = got is not None and want is not None and got[0] in (want[0], mw[0][1].key) and same_opt(got[1], want[1]) and same_opt(got[2], want[2])
            why = "diff %s does not describe the write (expected key %s, old %s, new %s)" % (
                show(diffs[1][0])[:240], show(want[0])[:60] if want else None, show(want[1])[:100] if want and want[1] else None,
                show(want[2])[:100] if want else None)
            n = 1
            if ok:
                for c in p.conds:
                    t = c[0]
                    if t[0] == "cmp" and t[1] == "eq" and c[1] is True and \
                            ((same_opt(t[2], got[1]) and same_opt(t[3], got[2])) or (same_opt(t[3], got[1]) and same_opt(t[2], got[2]))):
                        ok = False
                        why = "a change is written and notified on a path that decided new weight == old weight (nothing changed)"
        ctx.ob("R14.3", key + "/diff", ok, detail=why, sites=[e.site for _, e in mw], sample={"diff": show(diffs)[:240]})
        return n
    # cw4-group: diffs is a loop accumulator; walk the chain and compare each step with the write of that iteration
    # ... or several accumulators handed over one after the other (`added.into_iter().chain(removed).collect()`)
    def parts(t):
        if t[0] == "call" and len(t[2]) == 1 and t[1].split("::")[-1] in ("collect", "from_iter", "into_iter", "iter", "to_vec", "cloned", "into_vec"):
            return parts(t[2][0])
        if t[0] == "call" and len(t[2]) == 2 and (t[1].endswith("Iterator::chain") or t[1] in ("chain", "extend")):
            return parts(t[2][0]) + parts(t[2][1])
        return [t]
    loops_with_step = set()
    for term in parts(diffs):
        n += _diff_accumulator(ctx, p, key, term, mw, MEM, loops_with_step)
    for _, e in mw:
        if e.loops and e.loops[-1] not in loops_with_step:
            ctx.ob("R14.3", key + "/write without diff", False, sites=[e.site], detail="MEMBERS %s in a loop that records no diff" % e.op)
    return n


def _diff_accumulator(ctx, p, key, term, mw, MEM, loops_with_step):
    n = 0
    seen = 0
    while term[0] == "loopvar" and seen < 10:
        seen += 1
        lk, var, itn = term[1], term[2], term[3]
        ent = [e for e in p.effects if e.kind == "loop_enter" and e.name == lk]
        stp = [e for e in p.effects if e.kind == "loop_step" and e.name == lk]
        if not ent:
            break
        if itn >= 1 and stp:
            sv = stp[0].value.get(var)
            ws = [e for _, e in mw if e.loops and e.loops[-1] == lk]
            prev = ("loopvar", lk, var, 0)
            kk = key + "/diff in loop@%s" % lk[0].split("::")[-1]
            if sv == prev:
                ctx.ob("R14.3", kk + ":none", not ws, detail="member written in this iteration but no diff recorded", sites=[e.site for e in ws])
            elif sv[0] == "call" and sv[1] == "push" and sv[2][0] == prev:
                loops_with_step.add(lk)
                got = diff_fields(sv[2][1])
                good = len(ws) == 1 and got is not None
                why = "one diff pushed but %d member writes in the iteration" % len(ws)
                if good:
                    want = expected_diff(p, ws[0], MEM)
                    good = want is not None and got[0] in (want[0], ws[0].key) and same_opt(got[1], want[1]) and same_opt(got[2], want[2])
                    why = "diff %s does not describe the %s of this iteration (expected key %s, old %s, new %s)" % (
                        show(sv[2][1])[:240], ws[0].op, show(want[0])[:80] if want else None,
                        show(want[1])[:100] if want and want[1] else None, show(want[2])[:100] if want else None)
                    n += 1
                ctx.ob("R14.3", kk + ":" + (ws[0].op if ws else "?"), good, detail=why, sites=[e.site for e in ws], sample={"diff": show(sv[2][1])[:240]})
            else:
                ctx.ob("R14.3", kk, False, detail="diff list is not extended by exactly one push per iteration: %s" % show(sv)[:200])
        term = ent[0].value.get(var, ("unknown",))
    if term != ("list", ()):
        ctx.ob("R14.3", key + "/diff list starts empty", False, detail="diff accumulator starts from %s" % show(term)[:120])
    return n
