"""C12 - cw20-ics20: channel balance tracks vouchers exactly; error acks change nothing."""
from ..engine import show, OPTION
from ..idioms import dispatch, entry_points, loaded_from, nf, walk, response_entries, NF, update_base, order_facts, version_literal
from .icscommon import CRATE, SENDER, items, ack_kind, state_delta, payout_parts

ID = "C12"
# facts about the released storage formats (CHANGELOG; the source's own constants at the pinned commit): the last release with the
# v1 configuration layout, and the last release whose send path did not keep the channel balances itself
LAST_V1_RELEASE = "0.12.0-alpha1"
LAST_UNTRACKED_RELEASE = "0.13.0"
RULES = {
    "R12.1": "error acks are clean: ibc_packet_receive turns every error of its worker into an Ok response, so nothing is rolled "
             "back: no path that answers with an error acknowledgement contains a storage write",
    "R12.2": "never an error: ibc_packet_receive's error type is uninhabited and every path returns Ok",
    "R12.3": "success ack only with payment: an Ok(success-ack) response is produced only on a path that reduced the channel "
             "balance and carries the payout sub-message; error acks carry no payout",
    "R12.4": "one well-formed packet per transfer: Ok-paths of Transfer / Receive emit exactly one IbcMsg::SendPacket{channel_id: "
             "msg.channel, data: to_json_binary(Ics20Packet{amount, denom, sender, receiver: msg.remote_address, memo: msg.memo}), "
             "timeout: env.block.time.plus_seconds(msg.timeout or CONFIG.default_timeout)} whose amount/denom are the ones "
             "escrowed, sender the true initiator, guarded by amount <= u64::MAX",
    "R12.6": "a failed payout is undone exactly (shared with C11 R11.4 / R11.6): the receive path stores REPLY_ARGS = the (channel, denom, "
             "amount) it reduced, the payout replies on error with the id on which `reply` adds exactly those back to `outstanding`, "
             "and no other sub-message uses that id - so the error acknowledgement produced by `reply` also leaves the books as before",
    "R12.7": "upgrade path: every successful migrate either runs the v2->v3 balance reconciliation (migrations::v2::update_balances) "
             "or has decided, on the stored version, that it is not needed - in particular the v1->v2 conversion does not skip it; "
             "what the reconciliation computes from live balances is not decided.  Release boundaries (facts about released "
             "storage formats, frozen): the reconciliation runs exactly for stored versions <= 0.13.0 (0.13.1 keeps the balances "
             "itself; re-running it later books tokens the contract merely holds as escrow, skipping it earlier loses the sends in "
             "flight), the v1->v2 conversion exactly for <= 0.12.0-alpha1",
    "R12.9": "what is booked is what was paid (shared with C11 R11.3): outstanding / total_sent grow only by the coin or cw20 amount "
             "actually attached to that very transfer - a batch form that books each leg against the whole purse emits packets for "
             "more than it escrowed",
    "R12.8": "the refund of our own failed / timed-out packet reduces the balance of the channel the packet was sent on "
             "(packet.src.channel_id), for the packet's denom and amount (shared with C11 R11.1)",
    "R12.5": "accounting step: per entry point the channel-state deltas are: transfer +A outstanding and +A total_sent; "
             "receive -A outstanding; error-ack / timeout -A outstanding; reply-undo +A outstanding only; success-ack none",
}


def run(ctx):
    ctx.rule_texts.update(RULES)
    ctx.assumptions += ["A-PRIMS", "A-ATOMIC for entry points that return Err (ack / timeout / execute)",
                        "Item::save / to_json_binary of plain cw_serde structs cannot fail"]
    ctx.not_decided += ["the v2 migration's reconciliation against live balances (migrations::v2 reads runtime balances)",
                        "panics inside serialisation (ack_success/ack_fail unwrap)"]
    it = items(ctx)
    if not ctx.ob("R12.1", "anchor:storage namespaces", all(v is not None for v in it.values()), trivial=True,
                  detail="ics20 storage namespaces not found: %s" % [k for k, v in it.items() if v is None]):
        return
    STATE = it["state"]
    eps = entry_points(ctx.facts, CRATE)
    need = ("ibc_packet_receive", "ibc_packet_ack", "ibc_packet_timeout", "reply", "execute")
    if not ctx.ob("R12.2", "anchor:entry points", all(n in eps for n in need), trivial=True,
                  detail="missing entry points %s" % [n for n in need if n not in eps]):
        return
    # ---------------- receive
    rb = ctx.facts.bodies[eps["ibc_packet_receive"]]
    rty = rb.locals[0]["ty"]
    never = None
    for k, a in ctx.facts.adts.items():
        if a.get("pretty") and a["pretty"] in rty and a["pretty"].endswith("Never"):
            never = a
    ctx.ob("R12.2", "ibc_packet_receive error type uninhabited", never is not None and len(never["variants"]) == 0,
           detail="return type %s: the error type is not an enum with zero variants" % rty, sample={"type": rty})
    paths = ctx.summarise(eps["ibc_packet_receive"])
    n_err = n_ok = 0
    for p in paths:
        if not p.is_ok():
            ctx.ob("R12.2", "ibc_packet_receive returns Ok on every path", False, detail="a path returns %s" % show(p.ret)[:160])
            continue
        r = p.ok_value()
        kind = ack_kind(r[3]) if r[0] == "resp" else None
        writes = [e for e in p.effects if e.kind == "write"]
        ents = list(r[2]) if r[0] == "resp" else []
        if kind == "error":
            n_err += 1
            why = sorted(set(c[0][2][0][3][0][1] and show(c[0][2][0][3][0][1])[:80] for c in p.conds
                             if c[0][0] == "call" and c[0][1].endswith("to_json_binary") and c[0][2][0][0] == "variant" and c[0][2][0][2] == "Error"))
            key = "ibc_packet_receive/error ack after %s" % ("writes to " + ",".join(sorted(set(e.site[2].split("::")[-1] for e in writes))) if writes else "no write")
            ctx.ob("R12.1", key, not writes, sites=[e.site for e in writes],
                   detail="the packet is answered with an error acknowledgement (%s) although state was already changed and is kept: %s"
                          % (why, [repr(e)[:120] for e in writes]),
                   sample={"error": why})
            ctx.ob("R12.3", "ibc_packet_receive/error ack carries no payout", not ents, detail="error ack with messages %s" % [show(m)[:100] for _, m in ents],
                   trivial=True)
        elif kind == "success":
            n_ok += 1
            red = [e for e in writes if e.item == STATE]
            pay = [payout_parts(m) for h, m in ents if h == "submsg"]
            good = len(red) == 1 and len(pay) == 1 and pay[0] is not None and len(ents) == 1
            ctx.ob("R12.3", "ibc_packet_receive/success ack", good, sites=[e.site for e in red],
                   detail="success ack without exactly one balance reduction and one payout (reductions %d, messages %s)" % (len(red), [(h, show(m)[:80]) for h, m in ents]),
                   sample={"payout": {k: show(v)[:80] if isinstance(v, tuple) else v for k, v in (pay[0] or {}).items()} if pay else None})
        else:
            ctx.ob("R12.3", "ibc_packet_receive/ack kind", None, detail="UNDECIDED: cannot classify the acknowledgement %s" % show(r)[:200])
    ctx.floor("R12.1", "error-ack paths", n_err, 2)
    ctx.floor("R12.3", "success-ack paths", n_ok, 1)
    # ---------------- R12.5 accounting
    acct = {}
    def record(name, p):
        for e in p.effects:
            if e.kind == "write" and e.item == STATE:
                o, t, prob = state_delta(e, p)
                acct.setdefault(name, []).append((e, o, t, prob))
    for p in paths:
        record("receive", p)
    for name in ("ibc_packet_ack", "ibc_packet_timeout", "reply"):
        for p in ctx.summarise(eps[name]):
            if p.is_err():
                continue
            sub = name
            if name == "ibc_packet_ack":
                k = [c[1] for c in p.conds if isinstance(c[1], str) and c[1] in ("Result", "Error")]
                sub = "ack/" + (k[0] if k else "?")
            record(sub, p)
            if sub == "ack/Result":
                w = [e for e in p.effects if e.kind == "write"]
                ctx.ob("R12.5", "success ack changes nothing", not w, sites=[e.site for e in w], detail="success ack handler writes state", sample={"writes": 0})
    ex = dispatch(ctx.summarise(eps["execute"]))
    for v in ("Transfer", "Receive"):
        for p in ex.get(v, []):
            if not p.is_err():
                record("transfer/" + v, p)
    expect = {"receive": (-1, 0), "ack/Error": (-1, 0), "ibc_packet_timeout": (-1, 0), "reply": (1, 0),
              "transfer/Transfer": (1, 1), "transfer/Receive": (1, 1)}
    for name, (so, st) in sorted(expect.items()):
        rows = acct.get(name, [])
        ctx.ob("R12.5", "floor:%s has a channel-state write" % name, bool(rows), detail="no channel-state write found for %s" % name, trivial=True)
        for e, o, t, prob in rows:
            if o is None:
                ctx.ob("R12.5", name, False, detail=prob, sites=[e.site])
                continue
            oa = list(o.atoms.items())
            good = len(oa) == 1 and oa[0][1] == so and o.const == 0
            if st == 0:
                good = good and not t.atoms and t.const == 0
            else:
                good = good and t.atoms == o.atoms and t.const == 0
            if so < 0:
                good = good and prob == "present"
            ctx.ob("R12.5", name, good, sites=[e.site],
                   detail="%s changes outstanding by %s and total_sent by %s (stored entry: %s); expected %+d*A and %+d*A"
                          % (name, o.show(), t.show(), prob, so, st), sample={"outstanding": o.show(), "total_sent": t.show()})
    for name in acct:
        if name not in expect and name != "ack/Result":
            ctx.ob("R12.5", "unexpected writer %s" % name, False, detail="%s writes channel state" % name)
    check_packets(ctx, ex, it)
    from . import C11
    sub = type(ctx)(ctx.pid, ctx.facts, ctx.engine, ctx.tier, ctx.tree_hash)
    C11.run(sub)
    for k in sub.order:
        o = sub.obs[k]
        if o.key.startswith(("anchor", "floor")):
            continue
        st_ = True if o.status == "discharged" else (None if o.status == "undecided" else False)
        if o.rule in ("R11.4", "R11.6"):
            ctx.ob("R12.6", o.key, st_, detail="; ".join(o.details), sites=o.sites, sample=o.sample)
        elif o.rule == "R11.1" and o.key.startswith(("ibc_packet_ack", "ibc_packet_timeout")):
            ctx.ob("R12.8", o.key, st_, detail="; ".join(o.details), sites=o.sites, sample=o.sample)
        elif o.rule == "R11.3":
            # "the amount sent on it": what is added to the balance (and carried by the packet, R12.4) is what was actually paid
            ctx.ob("R12.9", o.key, st_, detail="; ".join(o.details), sites=o.sites, sample=o.sample)
    check_migrate_gate(ctx, eps)


def check_packets(ctx, ex, it):
    STATE, CFG = it["state"], it["config"]
    n = 0
    for v in ("Transfer", "Receive"):
        for p in ex.get(v, []):
            if p.is_err():
                continue
            n += 1
            key = "execute/%s/packet" % v
            ents = response_entries(p) or []
            prob = None
            w = [e for e in p.effects if e.kind == "write" and e.item == STATE]
            if len(ents) != 1 or ents[0][0] != "msg":
                prob = "expected exactly one message, got %s" % [(h, show(m)[:80]) for h, m in ents]
            else:
                m = ents[0][1]
                if not (m[0] == "variant" and m[2] == "SendPacket"):
                    prob = "message is not IbcMsg::SendPacket: %s" % show(m)[:160]
                else:
                    f = dict(m[3])
                    tm = ("vfield", ("param", "msg"), "Transfer", "0") if v == "Transfer" else None
                    if v == "Receive":
                        for c in p.conds:
                            if c[0][0] == "call" and c[0][1].endswith("from_json") and c[1] == "Ok":
                                tm = ("vfield", c[0], "Ok", "0")
                    chan = ("field", tm, "channel")
                    pk = None
                    for x in walk(f.get("data")):
                        if x[0] == "struct" and x[1].endswith("Ics20Packet"):
                            pk = dict(x[2])
                    cfgs = [("vfield", c[0], "Ok", "0") for c in p.conds if c[0][0] == "load" and c[0][1] == CFG and c[1] == "Ok"]
                    cfg = cfgs[0] if cfgs else None
                    tsel = [c[1] for c in p.conds if c[0] == ("field", tm, "timeout")]
                    if tsel == ["Some"]:
                        want_t = ("vfield", ("field", tm, "timeout"), "Some", "0")
                    elif tsel == ["None"]:
                        want_t = ("field", cfg, "default_timeout")
                    else:   # not decided by a branch: the same choice spelled timeout.unwrap_or(default)
                        want_t = ("unwrap_or", ("field", tm, "timeout"), ("field", cfg, "default_timeout"))
                    want_timeout = ("call", "cosmwasm_std::Timestamp::plus_seconds", (("field", ("field", ("param", "env"), "block"), "time"), want_t))
                    if f.get("channel_id") != chan:
                        prob = "packet sent on %s, not on the requested channel" % show(f.get("channel_id"))[:100]
                    elif pk is None:
                        prob = "packet data is not a serialised Ics20Packet"
                    elif f.get("timeout") != want_timeout:
                        prob = "timeout %s is not env.block.time + (requested or default) seconds" % show(f.get("timeout"))[:160]
                    elif len(w) != 1:
                        prob = "%d escrow writes for one packet" % len(w)
                    else:
                        e = w[0]
                        o, t, pr = state_delta(e, p)
                        if o is None:
                            prob = pr
                        else:
                            A = list(o.atoms.keys())[0] if len(o.atoms) == 1 else None
                            D = e.key[1][1] if e.key[0] == "tuple" else None
                            if e.key[0] != "tuple" or e.key[1][0] != chan:
                                prob = "escrow credited to channel %s, packet sent on %s" % (show(e.key)[:100], show(chan)[:80])
                            elif pk.get("amount") != A or pk.get("denom") != D:
                                prob = "packet carries (%s, %s) but (%s, %s) was escrowed" % (show(pk.get("amount"))[:80], show(pk.get("denom"))[:80], show(A)[:80], show(D)[:80])
                            elif pk.get("receiver") != ("field", tm, "remote_address") or pk.get("memo") != ("field", tm, "memo"):
                                prob = "receiver/memo are not the requested ones"
                            else:
                                if v == "Transfer":
                                    snd = ("field", ("param", "info"), "sender")
                                else:
                                    wr = ("vfield", ("param", "msg"), "Receive", "0")
                                    snd = ("vfield", ("call", "cosmwasm_std::Api::addr_validate", (("field", ("param", "deps"), "api"), ("field", wr, "sender"))), "Ok", "0")
                                if pk.get("sender") != snd:
                                    prob = "packet sender %s is not the true initiator" % show(pk.get("sender"))[:100]
                                else:
                                    def is_u64max(x):
                                        return (x[0] == "const" and x[1].endswith("MAX")) or x == ("lit", 2 ** 64 - 1)
                                    lim = any(lo == A and is_u64max(hi) for lo, hi, strict, c in order_facts(p.conds))
                                    # or the same bound spelled as a checked narrowing: u64::try_from(amount) = Ok
                                    lim = lim or any(c[0][0] == "call" and ("try_from" in c[0][1] or "try_into" in c[0][1]) and "u64" in c[0][1]
                                                     and c[0][2] and c[0][2][-1] == A and c[1] == "Ok" for c in p.conds)
                                    if not lim:
                                        prob = "packet emitted without the guard amount <= u64::MAX (Ics20Packet::validate)"
            ctx.ob("R12.4", key, prob is None, detail=prob, sites=[e.site for e in w], sample={"packet": show(ents[0][1])[:300] if ents else None})
    ctx.floor("R12.4", "transfer Ok-paths", n, 2)


UPDATE_BALANCES = "cw20_ics20::migrations::v2::update_balances"


def _semver_key(v):
    core, _, pre = v.partition("-")
    nums = tuple(int(x) if x.isdigit() else 0 for x in (core.split(".") + ["0", "0", "0"])[:3])
    return nums + ((0, pre) if pre else (1, ""))


def check_migrate_gate(ctx, eps):
    if "migrate" not in eps or UPDATE_BALANCES not in ctx.facts.bodies:
        ctx.ob("R12.7", "anchor:migrate / v2::update_balances", False, trivial=True, detail="migrate or migrations::v2::update_balances not found")
        return
    paths = [p for p in ctx.summarise(eps["migrate"], opaque={UPDATE_BALANCES}) if not p.is_err()]
    def called(p):
        for i, c in enumerate(p.conds):
            if c[0][0] == "call" and c[0][1] == UPDATE_BALANCES and c[1] == "Ok":
                return i
        return None
    gates = set()
    for p in paths:
        i = called(p)
        if i is not None:
            for c in reversed(p.conds[:i]):
                if c[0][0] == "cmp" and c[1] is True:
                    gates.add(c[0])
                    break
    ctx.ob("R12.7", "floor:reconciliation gate found", len(gates) >= 1, trivial=True,
           detail="no migrate path calls v2::update_balances under a version decision")
    n = 0
    for p in paths:
        if called(p) is not None:
            n += 1
            continue
        decided = any(c[0] in gates and c[1] is False for c in p.conds)
        conv = [e for e in p.effects if e.kind == "prim" and e.name == "Admin::set"]
        ctx.ob("R12.7", "migrate/path without reconciliation%s" % (" (after the v1->v2 conversion)" if conv else ""), decided,
               sites=[e.site for e in conv],
               detail="a successful migrate path neither calls v2::update_balances nor decides %s = false: a contract upgraded along "
                      "this path keeps channel balances that were never reconciled with the sends still in flight"
                      % [show(g)[:120] for g in gates], sample={"decided_not_needed": decided})
    ctx.floor("R12.7", "migrate paths that reconcile", n, 1)
    # release boundaries: on the paths that reconcile / convert, the version decision is stored <= boundary (non-strict)
    def stored_version(t):
        return any(x[0] == "call" and ("get_contract_version" in x[1] or "ensure_from_older_version" in x[1]) for x in walk(t))
    for what, boundary, hit in (("reconciliation", LAST_UNTRACKED_RELEASE, lambda p: called(p) is not None),
                                ("v1->v2 conversion", LAST_V1_RELEASE, lambda p: any(e.kind == "prim" and e.name == "Admin::set" for e in p.effects))):
        seen = None
        for p in paths:
            if not hit(p):
                continue
            ub = set()
            for lo, hi, strict, c in order_facts(p.conds):
                v = version_literal(hi)
                if v is not None and stored_version(lo) and not strict:
                    ub.add(v)
            seen = ub if seen is None else (seen & ub)
        seen = seen or set()
        # the tightest upper bound every such path has decided is the step's own gate (a path that converts v1 storage has also
        # passed the later, higher gates)
        own = min(seen, key=_semver_key) if seen else None
        ctx.ob("R12.7", "migrate/%s release boundary" % what, own == boundary,
               detail="the %s is gated by stored version <= %s; the released storage formats change at %s" % (what, own or sorted(seen), boundary),
               sample={"boundary": own})
