"""C03 - cw3: a proposal's status always equals the outcome its ballots imply."""
from ..engine import show
from ..idioms import dispatch, entry_points, update_base, loaded_from, field_of, nf, walk, possible_variants
from .cw3common import (SENDER, BLOCK, CS, IS_PASSED, IS_REJECTED, IS_EXPIRED, STATUS, VOTE, CONTRACTS, status, items,
                        cs_call, exec_paths, is_expired_cond, cs_is_passed, cs_not_passed, stored_status_in, cs_term)
from . import C04
from .listing import extract, deep_walk

ID = "C03"
RULES = {
    "R03.1": "tally = ballots: on every path that writes a ballot, the Ballot{weight: W, vote: V} saved and the tally change "
             "use the same (V, W): the field of `votes` named like V grows by exactly W (at creation: Votes{yes: P, others 0} "
             "with the proposer's ballot {P, Yes}); Votes::total sums all four fields",
    "R03.2": "stored statuses are truthful: a PROPOSALS write that changes `votes` (and the creating write) either stores "
             "status = current_status(<the proposal as saved>, env.block) or leaves the status as it is / Open - a stored status other "
             "than Open is final for every reader, a stored Open is recomputed by every reader, so only a *wrong* non-Open status can "
             "make the observed status differ from the outcome (persisting the outcome early is an optimisation, not a requirement)",
    "R03.3": "admission re-evaluates: Execute requires current_status(stored, env.block) == Passed; Close requires stored status "
             "not in {Executed, Rejected, Passed}, current_status(stored, env.block) != Passed and is_expired(expires, env.block)",
    "R03.4": "queries report the derived status: Proposal / ListProposals / ReverseProposals answer "
             "status = current_status(stored, env.block) and threshold = stored.threshold.to_response(stored.total_weight)",
    "R03.5": "current_status table: result is Passed iff stored Open and is_passed; Rejected iff stored Open, not passed and "
             "(is_rejected or expired); otherwise the stored status (finite case split over the decisions of the function)",
    "R03.8": "a counted ballot stays (shared with C06 R06.1): the voting write is insert-if-absent on (proposal_id, info.sender) - a "
             "ballot that can be replaced leaves its first weight in the tally, so the stored tally is no longer what the recorded "
             "ballots imply",
    "R03.7": "the rule that is applied is the rule that was configured: instantiate stores threshold and max_voting_period exactly as "
             "the message gave them (validated, not narrowed or rewritten); proposals copy the stored threshold (R05.5)",
    "R03.6": "threshold-rule clauses shared with C04: no pass without Yes weight (R04.1); the arms of is_passed / is_rejected agree "
             "on strictness, base weight and complementary percentage (R04.4) - a deviating arm reports Rejected for a proposal "
             "that can still pass, or both Passed and Rejected for one tally; nothing but the documented conditions decides (R04.5); "
             "the required Yes weight is rounded up with a factor that keeps nine decimals exact (R04.3, R04.6) - rounded down, a "
             "proposal passes with a Yes share below its threshold",
}
FIELD_OF_VOTE = {"Yes": "yes", "No": "no", "Abstain": "abstain", "Veto": "veto"}


def run(ctx):
    ctx.rule_texts.update(RULES)
    ctx.assumptions += ["A-ATOMIC", "A-PRIMS", "A-OVF (u64 tally additions abort on overflow)"]
    ctx.not_decided += ["that is_passed / is_rejected compute the documented count/percentage/quorum formulas (numeric; see C04)"]
    it = items(ctx)
    if not ctx.ob("R03.1", "anchor:storage namespaces", all(v is not None for v in it.values()), trivial=True,
                  detail="cw3 storage namespaces not found: %s" % [k for k, v in it.items() if v is None]):
        return
    PROP, BAL = it["proposals"], it["ballots"]
    n_vote = n_prop = 0
    for crate in CONTRACTS:
        groups = exec_paths(ctx, crate)
        for variant, ps in sorted(groups.items(), key=lambda x: str(x[0])):
            key = "%s::execute/%s" % (crate, variant)
            for p in ps:
                if p.is_err():
                    continue
                bw = [(i, e) for i, e in enumerate(p.effects) if e.kind == "write" and e.item == BAL]
                pw = [(i, e) for i, e in enumerate(p.effects) if e.kind == "write" and e.item == PROP]
                for i, e in pw:
                    if e.op == "remove":
                        continue
                    base, fields = update_base(e.value)
                    creating = e.value[0] == "struct"
                    if creating:
                        n_prop += 1
                        st = field_of(e.value, "status")
                        x = cs_call(st)
                        want = ("struct", e.value[1], tuple((n, (status("Open") if n == "status" else v)) for n, v in e.value[2]))
                        # a stored status other than Open is final for current_status (only open proposals move), so it must be the
                        # outcome computed for the proposal as created; storing Open is always truthful (it is recomputed on every read)
                        same = x is not None and x == want
                        if x is not None and not same:
                            # the proposal handed to current_status and the one written may be spelled differently (a literal here, the
                            # source entry with fields replaced there): equal when every field is
                            same = all((field_of(x, n) == (status("Open") if n == "status" else v)) for n, v in e.value[2])
                        ctx.ob("R03.2", key + "/create", same or st == status("Open"), sites=[e.site],
                               detail="created proposal stores status %s, neither Open nor current_status(<the proposal as created, Open>, env.block)" % show(st)[:200],
                               sample={"status": show(st)[:120]})
                        # R03.1 creation
                        votes = field_of(e.value, "votes")
                        good = False
                        why = "no proposer ballot"
                        if len(bw) == 1:
                            b = bw[0][1].value
                            W, V = field_of(b, "weight"), field_of(b, "vote")
                            good = (votes[0] == "struct" and dict(votes[2]) == {"yes": W, "no": ("lit", 0), "abstain": ("lit", 0), "veto": ("lit", 0)}
                                    and V == ("variant", VOTE, "Yes", ()))
                            why = "initial tally %s does not equal the proposer's ballot {weight %s, vote %s}" % (show(votes)[:160], show(W)[:80], show(V))
                        ctx.ob("R03.1", key + "/create", good, detail=why, sites=[e.site] + [x_[1].site for x_ in bw],
                               sample={"votes": show(votes)[:160]})
                        continue
                    if "votes" in fields:
                        n_vote += 1
                        # R03.2
                        st = fields.get("status")
                        x = cs_call(st) if st is not None else None
                        want = None
                        if x is not None:
                            xb, xf = update_base(x)
                            want = xb == base and xf.get("votes") == fields["votes"] and set(xf) <= {"votes"}
                        # the stored status is either left as it is (every reader recomputes an Open one, a decided one stays decided -
                        # the decisions are monotone in further votes) or set to the outcome of the proposal with the new tally;
                        # anything else stores a status no rule produced
                        ctx.ob("R03.2", key + "/vote", bool(want) or st is None, sites=[e.site],
                               detail="tally changed and the stored status becomes %s, which is neither the stored one nor "
                                      "current_status(<proposal with the new tally>, env.block)" % show(st)[:200],
                               sample={"status": show(st)[:160] if st else "left as stored"})
                        # R03.1
                        vb, vf = update_base(fields["votes"])
                        good = False
                        why = "ballot missing"
                        if len(bw) == 1 and vb == ("field", base, "votes") and len(vf) == 1:
                            b = bw[0][1].value
                            W, V = field_of(b, "weight"), field_of(b, "vote")
                            fname, newv = list(vf.items())[0]
                            chosen = [c[1] for c in p.conds if c[0] == V and isinstance(c[1], str)]
                            if not chosen:
                                # the same choice spelled as a chain of `vote == Vote::X` tests
                                pv_ = possible_variants(ctx, p, V, VOTE)
                                chosen = sorted(pv_) if pv_ is not None and len(pv_) == 1 else []
                            n_ = nf(newv)
                            prev = ("field", vb, fname)
                            want_ = nf(("bin", "add", prev, W))      # compare normal forms, not the spelling of W
                            good = (len(chosen) == 1 and FIELD_OF_VOTE.get(chosen[0]) == fname and n_ == want_ and n_.atoms.get(prev) == 1
                                    and not n_.inexact)
                            why = "ballot {weight %s, vote %s=%s} but tally field `%s` becomes %s" % (show(W)[:80], show(V)[:60], chosen, fname, show(newv)[:160])
                        elif len(bw) != 1:
                            why = "%d ballot writes on a tally-changing path" % len(bw)
                        else:
                            why = "tally not derived from the stored tally by one field: %s" % show(fields["votes"])[:200]
                        ctx.ob("R03.1", key + "/vote", good, detail=why, sites=[e.site] + [x_[1].site for x_ in bw],
                               sample={"tally": show(fields["votes"])[:200]})
                if bw and not pw:
                    ctx.ob("R03.1", key + "/ballot without tally", False, detail="ballot written but proposal tally not updated",
                           sites=[x_[1].site for x_ in bw])
                elif bw:
                    # ... and the proposal written on a ballot-recording path is the created one or the stored one with its tally
                    # moved (checked above): a tally rebuilt some other way (say, re-summed from a listing) is not "stored + this ballot"
                    okw = False
                    for i, e in pw:
                        if e.op == "remove":
                            continue
                        base, fields = update_base(e.value)
                        lf = loaded_from(base)
                        if e.value[0] == "struct" or ("votes" in fields and lf is not None and lf[0] == PROP):
                            okw = True
                    ctx.ob("R03.1", key + "/ballot and tally move together", okw, sites=[x_[1].site for x_ in bw] + [e.site for _, e in pw],
                           detail="a ballot is recorded but the proposal written on that path is not the stored proposal with its tally "
                                  "changed: %s" % [show(e.value)[:160] for _, e in pw][:2])
                # R03.3
                if variant == "Execute" and pw:
                    i, e = pw[0]
                    base, _ = update_base(e.value)
                    good = cs_is_passed(ctx, p, base, before=i)
                    ctx.ob("R03.3", key, good, sites=[e.site],
                           detail="Execute admits the proposal without the decision current_status(stored, env.block) == Passed",
                           sample={"guard": "current_status(stored, env.block) == Passed"})
                if variant == "Close" and pw:
                    i, e = pw[0]
                    base, _ = update_base(e.value)
                    # for the status alone a stored Rejected may be closed again (it stays Rejected); that Close is not repeatable is
                    # C05 R05.3 / C15 R15.5
                    g1 = stored_status_in(ctx, p, base, ("Pending", "Open", "Rejected"), before=i)
                    g2 = cs_not_passed(ctx, p, base, before=i)
                    g3 = is_expired_cond(p, ("field", base, "expires"), True, before=i)
                    ctx.ob("R03.3", key, g1 and g2 and g3, sites=[e.site],
                           detail="Close admits a proposal without all three decisions (stored status not Executed/Rejected/Passed: %s, "
                                  "current_status != Passed: %s, expired: %s)" % (g1, g2, g3),
                           sample={"guards": [g1, g2, g3]})
    ctx.floor("R03.1", "tally-changing PROPOSALS writes", n_vote, 2)
    ctx.floor("R03.2", "creating PROPOSALS writes", n_prop, 2)
    check_total(ctx)
    check_table(ctx)
    from ..idioms import check_overflow_profile
    check_overflow_profile(ctx)
    check_queries(ctx, it)
    # R03.8 = C06 R06.1: the tally can only equal the recorded ballots if a ballot, once counted, is never replaced
    from . import C06
    sub6 = type(ctx)(ctx.pid, ctx.facts, ctx.engine, ctx.tier, ctx.tree_hash)
    C06.run(sub6)
    for k in sub6.order:
        o = sub6.obs[k]
        if o.rule == "R06.1" and not o.key.startswith(("anchor", "floor")):
            ctx.ob("R03.8", o.key, True if o.status == "discharged" else (None if o.status == "undecided" else False),
                   detail="; ".join(o.details), sites=o.sites, sample=o.sample)
    from ..idioms import config_as_configured
    config_as_configured(ctx, "R03.7", "cw3_fixed_multisig", it["fixed_config"], ("threshold", "max_voting_period"), "fixed")
    config_as_configured(ctx, "R03.7", "cw3_flex_multisig", it["flex_config"], ("threshold", "max_voting_period"), "flex")
    # R03.6 = R04.1
    sub = type(ctx)(ctx.pid, ctx.facts, ctx.engine, ctx.tier, ctx.tree_hash)
    C04.run(sub)
    for k in sub.order:
        o = sub.obs[k]
        if o.rule in ("R04.1", "R04.3", "R04.4", "R04.5", "R04.6") and not o.key.startswith(("anchor", "floor")):
            ctx.ob("R03.6", o.rule + " " + o.key if o.rule not in ("R04.1", "R04.4") else o.key, o.status == "discharged" or None if o.status == "undecided" else o.status == "discharged",
                   detail="; ".join(o.details), sites=o.sites, sample=o.sample)


def check_total(ctx):
    fn = "cw3::proposal::Votes::total"
    b = ctx.facts.bodies.get(fn)
    if not ctx.ob("R03.1", "anchor:Votes::total", b is not None, detail="Votes::total not found", trivial=True):
        return
    ps = ctx.summarise(fn)
    good = len(ps) == 1
    if good:
        n_ = nf(ps[0].ret)
        want = {("field", ("param", "self"), f): 1 for f in ("yes", "no", "abstain", "veto")}
        good = n_.atoms == want and n_.const == 0 and not n_.inexact
    ctx.ob("R03.1", "Votes::total", good, detail="Votes::total is not yes + no + abstain + veto: %s" % (show(ps[0].ret) if ps else "?"),
           sample={"total": show(ps[0].ret)[:160] if ps else None})


def delegates(ctx, fn, depth=2):
    """workspace functions whose result `fn` returns as its own (the call that writes fn's return place), transitively"""
    out = set()
    b = ctx.facts.bodies.get(fn)
    if b is None or depth == 0:
        return out
    for bl in b.blocks:
        t = bl["term"]
        if t.get("t") == "call" and t.get("dest", {}).get("l") == 0 and not t["dest"].get("p"):
            g = t.get("resolved") or t.get("callee")
            if g not in ctx.facts.bodies and g:
                from ..facts import strip_generics
                g = strip_generics(g)
            if g in ctx.facts.bodies and g != fn:
                out.add(g)
                out |= delegates(ctx, g, depth - 1)
    return out


def check_table(ctx):
    b = ctx.facts.bodies.get(CS)
    if not ctx.ob("R03.5", "anchor:current_status", b is not None, detail="Proposal::current_status not found", trivial=True):
        return
    # is_passed / is_rejected may hand their whole decision to another workspace function (`self.tally(block).passed()`): a call
    # to that function on a value built from `self` is the same decision
    PASSED_FNS = {IS_PASSED} | delegates(ctx, IS_PASSED)
    REJECTED_FNS = {IS_REJECTED} | delegates(ctx, IS_REJECTED)
    ps = ctx.summarise(CS, opaque=PASSED_FNS | REJECTED_FNS)
    SELF = ("param", "self")
    stored = ("field", SELF, "status")

    def about_self(args):
        ps_ = [x for a in args for x in walk(a) if x[0] == "param"]
        return bool(ps_) and all(x in (SELF, ("param", "block")) for x in ps_) and SELF in ps_
    n = 0
    for p in ps:
        is_open = passed = rejected = expired = None
        pv = possible_variants(ctx, p, stored, STATUS)
        if pv == {"Open"}:
            is_open = True
        elif pv is not None and "Open" not in pv:
            is_open = False
        for c in p.conds:
            t, o = c[0], c[1]
            if t[0] == "cmp" and t[1] == "eq" and set((t[2], t[3])) == set((stored, status("Open"))):
                is_open = o
            elif t == stored and isinstance(o, str):
                pass            # a `match` / `matches!` on the stored status: accounted for by possible_variants above
            elif t[0] == "call" and t[1] in PASSED_FNS and about_self(t[2]):
                passed = o
            elif t[0] == "call" and t[1] in REJECTED_FNS and about_self(t[2]):
                rejected = o
            elif t[0] == "call" and t[1] == IS_EXPIRED and t[2][0] == ("field", SELF, "expires"):
                expired = o
            else:
                ctx.ob("R03.5", "current_status/unknown decision", None, detail="UNDECIDED: unexpected decision %s" % show(t)[:160])
        n += 1
        r = p.ret
        case = "open=%s passed=%s rejected=%s expired=%s" % (is_open, passed, rejected, expired)
        if is_open is None:
            want = None
        elif is_open is False:
            want = stored
        elif passed is True:
            want = status("Passed")
        elif passed is False and (rejected is True or expired is True):
            want = status("Rejected")
        elif passed is False and rejected is False and expired is False:
            want = stored          # == Open on this path
        else:
            want = None
        good = want is not None and (r == want or (want == stored and is_open and r == status("Open")))
        ctx.ob("R03.5", "current_status/" + case, good,
               detail="case %s returns %s, the documented table requires %s" % (case, show(r), show(want) if want else "a decided case"),
               sites=[(b.file, b.line, b.path)], sample={"case": case, "result": show(r)})
    ctx.floor("R03.5", "current_status cases", n, 4)


def check_queries(ctx, it):
    PROP = it["proposals"]
    n = 0
    per = {}
    for crate in CONTRACTS:
        eps = entry_points(ctx.facts, crate)
        groups = dispatch(ctx.summarise(eps["query"], opaque={CS}))
        for variant in ("Proposal", "ListProposals", "ReverseProposals"):
            for p in groups.get(variant, []):
                if p.is_err():
                    continue
                structs = [x for x in walk(p.ret) if x[0] == "struct" and x[1].endswith("ProposalResponse")]
                if variant == "Proposal":
                    for s in structs:
                        n += 1
                        check_resp(ctx, "%s::query/%s" % (crate, variant), s, None)
                else:
                    # what one listed entry is made of: the function applied by Iterator::map (summarised), or the value the
                    # listing loop pushes for the element it took
                    maps = [x for x in deep_walk(p, p.ret) if x[0] == "call" and x[1].endswith("Iterator::map")]
                    for m in maps:
                        f = m[2][1]
                        fb = None
                        args = None
                        if f[0] == "closure":
                            fb = ctx.engine.by_dp.get(f[1])
                            args = [f, ("param", "ITEM")]
                        elif f[0] == "fnitem":
                            fb = ctx.engine.by_dp.get(f[1])
                        if fb is None:
                            ctx.ob("R03.4", "%s::query/%s" % (crate, variant), None, detail="UNDECIDED: cannot resolve the mapping function %s" % show(f)[:120])
                            continue
                        cps = ctx.engine.summarise(fb, args=args, opaque={CS})
                        for cp in cps:
                            for s in [x for x in walk(cp.ret) if x[0] == "struct" and x[1].endswith("ProposalResponse")]:
                                n += 1
                                per[(crate, variant)] = per.get((crate, variant), 0) + 1
                                check_resp(ctx, "%s::query/%s" % (crate, variant), s, cp)
                    L = extract(p)
                    if L is not None and L.loop is not None and L.took:
                        if L.pushed is None:
                            ctx.ob("R03.4", "%s::query/%s" % (crate, variant), False, detail="the listing loop takes a proposal and lists nothing for it")
                        else:
                            for s in [x for x in walk(L.pushed) if x[0] == "struct" and x[1].endswith("ProposalResponse")]:
                                n += 1
                                per[(crate, variant)] = per.get((crate, variant), 0) + 1
                                check_resp(ctx, "%s::query/%s" % (crate, variant), s, p)
        for variant in ("ListProposals", "ReverseProposals"):
            ctx.ob("R03.4", "floor:%s::query/%s entries examined" % (crate, variant), per.get((crate, variant), 0) >= 1, trivial=True,
                   detail="no ProposalResponse built for a listed proposal was found for %s::%s (neither a mapping function nor a pushing loop): "
                          "the rule would be blind" % (crate, variant))
    ctx.floor("R03.4", "ProposalResponse constructions", n, 6)


def check_resp(ctx, key, s, cp):
    f = dict(s[2])
    st = f.get("status")
    # the proposal that is being reported: the value whose title / msgs / expires are copied
    y = f.get("title")[1] if f.get("title") is not None and f.get("title")[0] == "field" and f.get("title")[2] == "title" else None
    x = None
    blk = None
    if st is not None and st[0] == "call" and st[1] == CS and len(st[2]) == 2:
        x = st[2][0]
        blk = st[2][1]
    good = x is not None and y is not None and x == y and \
        (blk == BLOCK or blk == ("param", "block") or (blk[0] == "field" and blk[2] == "block"))
    if good:
        good = f.get("msgs") == ("field", y, "msgs") and f.get("expires") == ("field", y, "expires")
    th = f.get("threshold")
    good_t = th is not None and th[0] == "call" and th[1].endswith("Threshold::to_response") and y is not None and \
        th[2] == (("field", y, "threshold"), ("field", y, "total_weight"))
    ctx.ob("R03.4", key + "/status", good, detail="reported status is %s, not current_status(<the reported proposal>, block)" % show(st)[:200],
           sample={"status": show(st)[:160]})
    ctx.ob("R03.4", key + "/threshold", good_t, detail="reported threshold is %s, not stored.threshold.to_response(stored.total_weight)" % show(th)[:200],
           sample={"threshold": show(th)[:160]})
