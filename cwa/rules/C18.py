"""C18 - cw20-ics20: the token allow-list is governance-only and only ever loosens."""
from ..engine import show, OPTION
from ..idioms import dispatch, entry_points, loaded_from, nf, walk, response_entries, NF, update_base, field_of, controller_admin_guard
from ..prims import is_rmw
from .icscommon import CRATE, SENDER, items, payout_parts

ID = "C18"
NONE = ("variant", OPTION, "None", ())
RULES = {
    "R18.1": "ALLOW_LIST writes outside instantiate are preceded by ADMIN.assert_admin(deps, info.sender) = Ok",
    "R18.2": "the Allow update has no Ok outcome that limits an unlimited entry (old None-limit, new Some) nor one that lowers a "
             "limit (both Some and new < old); every Ok outcome stores exactly the requested limit",
    "R18.3": "no entry point removes an ALLOW_LIST entry",
    "R18.4": "ADMIN changes only through ADMIN.execute_update_admin with the contract's own ADMIN and the unmodified `info` "
             "(plus instantiate and the v1 migration, which set it from the message / the stored v1 config)",
    "R18.5": "CONFIG.default_gas_limit is written only by instantiate, by the v1->v2 conversion (None), and by migrate under "
             "msg.default_gas_limit.is_some() with that value (it can be set, never unset)",
    "R18.6": "transfer gate: a cw20 transfer escrows only on paths that decided CONFIG.default_gas_limit is Some or "
             "ALLOW_LIST[validated token] is present",
    "R18.7": "each payout's gas_limit is check_gas_limit of the amount being paid: the token's ALLOW_LIST limit when listed, else "
             "Some(default) when configured, else the call fails; None for native payouts",
}


def run(ctx):
    ctx.rule_texts.update(RULES)
    ctx.assumptions += ["A-ATOMIC", "A-PRIMS (cw_controllers::Admin)"]
    ctx.not_decided += ["the version predicates of migrate (runtime values)"]
    it = items(ctx)
    if not ctx.ob("R18.1", "anchor:storage namespaces", all(v is not None for v in it.values()), trivial=True,
                  detail="ics20 storage namespaces not found"):
        return
    ALLOW, ADMIN, CFG, STATE = it["allow"], it["admin"], it["config"], it["state"]
    eps = entry_points(ctx.facts, CRATE)
    n_allow = n_gate = n_gas = n_cfg = 0
    for ename, fn in sorted(eps.items()):
        if ename == "query":
            continue
        paths = ctx.summarise(fn)
        groups = dispatch(paths) if ename == "execute" else {None: paths}
        for variant, ps in sorted(groups.items(), key=lambda x: str(x[0])):
            key = "%s/%s" % (ename, variant)
            for p in ps:
                if p.is_err():
                    continue
                for i, e in enumerate(p.effects):
                    if e.kind == "write" and e.item == ALLOW:
                        if e.op == "remove":
                            ctx.ob("R18.3", key + "/remove", False, sites=[e.site], detail="ALLOW_LIST entry removed: tokens already in a channel would become unredeemable")
                            continue
                        if ename == "instantiate":
                            ctx.ob("R18.1", key + "/initial list", True, trivial=True)
                            continue
                        n_allow += 1
                        g = controller_admin_guard(p, ADMIN, SENDER, before=i)
                        ctx.ob("R18.1", key + "/write in %s" % e.site[2].split("::")[-1], g, sites=[e.site],
                               detail="ALLOW_LIST written without ADMIN.assert_admin(deps, info.sender) = Ok before the write",
                               sample={"guard": "assert_admin(info.sender)"})
                        check_allow(ctx, p, key, e)
                    if e.kind == "prim" and e.item == ADMIN and e.op == "write":
                        if e.name == "Admin::execute_update_admin":
                            good = e.args[0] == ADMIN and e.args[2] == ("param", "info")
                            ctx.ob("R18.4", key + "/" + e.name, good, sites=[e.site],
                                   detail="execute_update_admin not called with the unmodified info: %s" % show(("tuple", e.args))[:200],
                                   sample={"args": show(("tuple", e.args[2:]))[:160]})
                        elif e.name == "Admin::set":
                            ctx.ob("R18.4", key + "/" + e.name, ename in ("instantiate", "migrate"), sites=[e.site],
                                   detail="unguarded Admin::set outside instantiate / migrate", sample={"where": ename})
                        else:
                            ctx.ob("R18.4", key + "/" + e.name, False, sites=[e.site], detail="unexpected ADMIN mutation %s" % e.name)
                    if e.kind == "write" and e.item == CFG:
                        n_cfg += 1
                        check_cfg_write(ctx, p, key, ename, i, e, CFG, ADMIN)
                # R18.6 transfer gate
                if ename == "execute" and variant == "Receive":
                    for i, e in enumerate(p.effects):
                        if e.kind == "write" and e.item == STATE:
                            n_gate += 1
                            cfgs = [("vfield", c[0], "Ok", "0") for c in p.conds if c[0][0] == "load" and c[0][1] == CFG and c[1] == "Ok"]
                            cfg = cfgs[0] if cfgs else None
                            dflt = any(c[0] == ("is", ("field", cfg, "default_gas_limit"), "Some") and c[1] is True and c[3] <= i for c in p.conds) or \
                                any(c[0] == ("field", cfg, "default_gas_limit") and c[1] == "Some" and c[3] <= i for c in p.conds)
                            tok = ("vfield", ("call", "cosmwasm_std::Api::addr_validate", (("field", ("param", "deps"), "api"), SENDER)), "Ok", "0")
                            listed = any(c[0][0] == "vfield" and c[0][2] == "Ok" and c[0][1][0] == "may_load" and c[0][1][1] == ALLOW and c[0][1][2] == tok
                                         and c[1] == "Some" and c[3] <= i for c in p.conds)
                            ctx.ob("R18.6", key + "/gate", dflt or listed, sites=[e.site],
                                   detail="cw20 tokens escrowed without (default gas limit configured: %s) or (token on the allow list: %s)" % (dflt, listed),
                                   sample={"default": dflt, "listed": listed})
                # R18.7 gas limits of payouts
                if p.is_ok() and p.ok_value()[0] == "resp":
                    for h, m in p.ok_value()[2]:
                        pp = payout_parts(m) if h == "submsg" else None
                        if pp is None:
                            continue
                        n_gas += 1
                        prob = check_gas(p, pp, ALLOW, CFG)
                        ctx.ob("R18.7", key + "/gas limit of %s payout" % pp["kind"], prob is None, detail=prob,
                               sample={"gas_limit": show(pp["gas_limit"])[:160] if pp["gas_limit"] else None})
    ctx.floor("R18.1", "ALLOW_LIST writes outside instantiate", n_allow, 1)
    ctx.floor("R18.6", "cw20 escrow paths", n_gate, 1)
    ctx.floor("R18.7", "payouts with gas limit", n_gas, 3)
    ctx.floor("R18.5", "CONFIG writes", n_cfg, 2)


def check_allow(ctx, p, key, e):
    req = ("field", ("vfield", ("param", "msg"), "Allow", "0"), "gas_limit")
    # the request this write serves: the AllowMsg whose `contract` (validated) keys the write - the message's own payload, or one
    # element of a list of them (a batch form calling the same handler once per entry)
    k = e.key
    if k is not None and k[0] == "vfield" and k[2] == "Ok" and k[1][0] == "call" and k[1][1].endswith("addr_validate") \
            and k[1][2][-1][0] == "field" and k[1][2][-1][2] == "contract":
        req = ("field", k[1][2][-1][1], "gas_limit")
    good = is_rmw(e) and e.op != "remove" and e.value[0] == "struct" and dict(e.value[2]).get("gas_limit") == req
    ctx.ob("R18.2", key + "/stores the requested limit", good, sites=[e.site],
           detail="Allow stores %s, not AllowInfo{gas_limit: requested}" % show(e.value)[:160], sample={"value": show(e.value)[:120]})
    if not is_rmw(e) or e.op == "remove":
        return
    present = [c[1] for c in p.conds if c[0] == e.old]
    if present != ["Some"]:
        ctx.ob("R18.2", key + "/new entry", present == ["None"], detail="undecided presence %s" % present, sample={"case": "absent"})
        return
    oldlim = ("field", ("vfield", e.old, "Some", "0"), "gas_limit")
    o = [c[1] for c in p.conds if c[0] == oldlim]
    n = [c[1] for c in p.conds if c[0] == req]
    case = "old=%s new=%s" % (o[0] if o else "?", n[0] if n else "?")
    prob = None
    if o == ["None"] and n == ["Some"]:
        prob = "an unlimited entry can be given a limit"
    elif o == ["Some"] and n == ["Some"]:
        lt = [c[1] for c in p.conds if c[0] == ("cmp", "lt", ("vfield", req, "Some", "0"), ("vfield", oldlim, "Some", "0"))]
        ge = [c[1] for c in p.conds if c[0] == ("cmp", "le", ("vfield", oldlim, "Some", "0"), ("vfield", req, "Some", "0"))]
        if lt == [False] or ge == [True]:
            case += " new>=old"
        else:
            prob = "a limit can be replaced without the decision new >= old (decisions: lt=%s)" % lt
    elif not o or not n:
        # the match may not need to look at a side when the other already decides (e.g. new None)
        if n == ["None"] or (o == ["None"] and n == ["None"]) or (o == ["Some"] and n == ["None"]):
            pass
        elif not n and o:
            prob = "existing entry overwritten without looking at the requested limit"
        elif not o:
            prob = "existing entry overwritten without looking at its current limit"
    ctx.ob("R18.2", key + "/" + case, prob is None, detail=prob, sites=[e.site], sample={"case": case})


def check_cfg_write(ctx, p, key, ename, i, e, CFG, ADMIN):
    if ename == "instantiate":
        ctx.ob("R18.5", key + "/initial config", True, trivial=True)
        return
    if ename != "migrate":
        # another message may maintain other settings; what the property protects is the default gas limit, which such a write
        # must carry over from the stored configuration untouched
        base0, fields0 = update_base(e.value)
        lf0 = loaded_from(base0)
        keeps = lf0 is not None and lf0[0] == CFG and lf0[2] == e.ver and "default_gas_limit" not in fields0
        if not keeps and lf0 is not None and lf0[0] == CFG and lf0[2] == e.ver and ADMIN is not None:
            # ... or governance sets it: guarded like every governance action, to a value the path decided present (set, never unset)
            nv = fields0["default_gas_limit"]
            some = (nv[0] == "variant" and nv[2] == "Some") or any((c[0] == nv and c[1] == "Some") or (c[0] == ("is", nv, "Some") and c[1] is True)
                                                                    for c in p.conds if c[3] <= i)
            keeps = some and controller_admin_guard(p, ADMIN, SENDER, before=i)
        ctx.ob("R18.5", key + "/CONFIG written", keeps, sites=[e.site],
               detail="CONFIG written by %s as %s: not the stored configuration with default_gas_limit left as it is" % (ename, show(e.value)[:160]),
               sample={"changed": sorted(fields0)})
        return
    v = e.value
    base, fields = update_base(v)
    if v[0] == "struct":
        d = field_of(v, "default_gas_limit")
        ctx.ob("R18.5", key + "/v1 conversion", d == NONE, sites=[e.site],
               detail="v1->v2 conversion sets default_gas_limit to %s" % show(d)[:100], sample={"default_gas_limit": show(d)})
        return
    lf = loaded_from(base)
    req = ("field", ("param", "msg"), "default_gas_limit")
    good = lf is not None and lf[0] == CFG and set(fields) == {"default_gas_limit"} and fields["default_gas_limit"] == req and \
        any((c[0] == ("is", req, "Some") and c[1] is True or (c[0] == req and c[1] == "Some")) and c[3] <= i for c in p.conds)
    ctx.ob("R18.5", key + "/set by migrate", good, sites=[e.site],
           detail="migrate rewrites CONFIG as %s without the guard msg.default_gas_limit.is_some() (the default could be unset)" % show(v)[:200],
           sample={"fields": sorted(fields)})


def check_gas(p, pp, ALLOW, CFG):
    g = pp["gas_limit"]
    if pp["kind"] == "native":
        return None if g == NONE else "native payout carries gas limit %s" % show(g)[:100]
    tok = pp["token"]
    addr = ("vfield", ("call", "cosmwasm_std::Api::addr_validate", (("field", ("param", "deps"), "api"), tok)), "Ok", "0")
    listed = None
    for c in p.conds:
        if c[0][0] == "vfield" and c[0][2] == "Ok" and c[0][1][0] == "may_load" and c[0][1][1] == ALLOW and c[0][1][2] == addr and isinstance(c[1], str):
            listed = (c[0], c[1])
    if listed is None:
        return "cw20 payout without looking the paid token up in the allow list (gas limit %s)" % show(g)[:100]
    if listed[1] == "Some":
        want = ("field", ("vfield", listed[0], "Some", "0"), "gas_limit")
        return None if g == want else "listed token paid with gas limit %s, not its allow-list limit" % show(g)[:120]
    cfgs = [("vfield", c[0], "Ok", "0") for c in p.conds if c[0][0] == "load" and c[0][1] == CFG and c[1] == "Ok"]
    if not cfgs:
        return "unlisted token paid without consulting the default gas limit"
    d = ("field", cfgs[0], "default_gas_limit")
    if not any(c[0] == d and c[1] == "Some" for c in p.conds):
        return "unlisted token paid although no default gas limit is configured"
    want = ("variant", OPTION, "Some", (("0", ("vfield", d, "Some", "0")),))
    # `d` itself, decided Some on this path, is the same value as Some(d's payload)
    return None if g in (want, d) else "unlisted token paid with gas limit %s, not Some(default)" % show(g)[:120]
