"""C05 - cw3: passed proposals execute at most once; the lifecycle only moves forward."""
from ..engine import show
from ..idioms import dispatch, entry_points, update_base, loaded_from, field_of, nf, walk, response_entries
from .cw3common import (SENDER, BLOCK, HEIGHT, CS, AUTHORIZE, IS_EXPIRED, STATUS, CONTRACTS, status, items, cs_call, close_admission,
                        exec_paths, is_expired_cond, cs_is_passed, cs_not_passed, stored_status_in, cs_term)

ID = "C05"
RULES = {
    "R05.1": "typestate of Execute: status := Executed is written only on paths that decided "
             "current_status(stored, env.block) == Passed (flex: and Config::authorize(querier, info.sender) = Ok) before the "
             "write; the proposal's messages are returned only on such a path, i.e. after that write; authorize's body is "
             "None => Ok, Member => is_member(sender) present in the group's live state, Only(a) => a == sender",
    "R05.2": "dispatch exactly as proposed: the returned messages are add_messages(stored.msgs) (flex: preceded only by the "
             "deposit refund), as plain messages (no reply handler), so a failing dispatch reverts the call",
    "R05.3": "who may change status: Vote/Propose via current_status; Execute -> Executed (R05.1); Close -> Rejected only when "
             "stored status is not Executed/Rejected/Passed, current_status != Passed and the proposal is expired; Close "
             "dispatches nothing (flex: only the refund)",
    "R05.4": "content is frozen: every non-creating PROPOSALS write saves the stored proposal of the same id with only "
             "`status` and/or `votes` changed; PROPOSALS entries are never removed",
    "R05.5": "ids: next_id saves and returns (stored count or 0) + 1 exactly; the creating write and the proposer's ballot use "
             "that id; nothing else writes PROPOSAL_COUNT",
    "R05.8": "a status once observed as Rejected-by-expiry never moves again: a ballot is recorded only while the proposal has "
             "not expired, judged by the same is_expired(env.block) the status functions use (shared with C06 R06.2)",
    "R05.7": "fixed at creation, as observed: Proposal / ListProposals / ReverseProposals report the threshold as "
             "stored.threshold.to_response(stored.total_weight) of the stored proposal - not of the live configuration or group "
             "(shared with C03 R03.4)",
    "R05.6": "expiry clamp: the stored expiry is max_voting_period.after(env.block) when the requested one compares Greater, "
             "the requested one when Less/Equal, and an incomparable request has no Ok-path",
}


def is_refund(m, prop):
    dep = ("vfield", ("field", prop, "deposit"), "Some", "0")
    proposer = ("field", prop, "proposer")
    amount = ("field", dep, "amount")
    denom = ("field", dep, "denom")
    if m[0] == "variant" and m[2] == "Send":
        f = dict(m[3])
        coin = ("list", (("struct", "cosmwasm_std::coin::Coin", (("denom", ("vfield", denom, "Native", "0")), ("amount", amount))),))
        amt = f.get("amount")
        ok_amt = amt is not None and amt[0] == "list" and len(amt[1]) == 1 and amt[1][0][0] == "struct" and \
            dict(amt[1][0][2]) == {"denom": ("vfield", denom, "Native", "0"), "amount": amount}
        return f.get("to_address") == proposer and ok_amt
    if m[0] == "variant" and m[2] == "Execute":
        f = dict(m[3])
        b = f.get("msg")
        if not (b and b[0] == "vfield" and b[2] == "Ok" and b[1][0] == "call" and b[1][1].endswith("to_json_binary")):
            return False
        x = b[1][2][0]
        return (f.get("contract_addr") == ("vfield", denom, "Cw20", "0") and f.get("funds") == ("list", ())
                and x[0] == "variant" and x[2] == "Transfer" and dict(x[3]) == {"recipient": proposer, "amount": amount})
    return False


def run(ctx):
    ctx.rule_texts.update(RULES)
    from ..idioms import check_overflow_profile
    check_overflow_profile(ctx)
    ctx.assumptions += ["A-ATOMIC: a failed call (including a failed plain sub-message) leaves no state", "A-PRIMS", "A-OVF"]
    ctx.not_decided += ["behaviour of the VM on failed sub-messages", "semantics of Expiration ordering (partial_cmp)"]
    it = items(ctx)
    if not ctx.ob("R05.1", "anchor:storage namespaces", all(v is not None for v in it.values()), trivial=True,
                  detail="cw3 storage namespaces not found"):
        return
    PROP, BAL, COUNT = it["proposals"], it["ballots"], it["count"]
    n_exec = n_close = n_nc = n_create = 0
    auth_cases = set()
    for crate in CONTRACTS:
        groups = exec_paths(ctx, crate, opaque=(CS,))
        CFG = it["fixed_config"] if crate == "cw3_fixed_multisig" else it["flex_config"]
        for variant, ps in sorted(groups.items(), key=lambda x: str(x[0])):
            key = "%s::execute/%s" % (crate, variant)
            for p in ps:
                if p.is_err():
                    continue
                pw = [(i, e) for i, e in enumerate(p.effects) if e.kind == "write" and e.item == PROP]
                ents = response_entries(p)
                if ents is None:
                    ctx.ob("R05.2", key + "/response", None, detail="UNDECIDED: response not built in the handler")
                    continue
                executed = False
                prop_loaded = None
                for i, e in pw:
                    if e.op == "remove":
                        ctx.ob("R05.4", key + "/remove", False, detail="PROPOSALS entry removed", sites=[e.site])
                        continue
                    if e.value[0] == "struct":
                        n_create += 1
                        check_create(ctx, p, i, e, key, it, crate, CFG)
                        continue
                    n_nc += 1
                    base, fields = update_base(e.value)
                    lf = loaded_from(base)
                    good = lf is not None and lf[0] == PROP and lf[1] == e.key and lf[2] == e.ver and set(fields) <= {"status", "votes"}
                    ctx.ob("R05.4", key + "/write in %s" % e.site[2], good, sites=[e.site],
                           detail="PROPOSALS write is not <stored proposal of the same id> with only status/votes changed "
                                  "(changed: %s, base: %s)" % (sorted(fields), show(base)[:120]),
                           sample={"changed": sorted(fields)})
                    if not good:
                        continue
                    prop_loaded = base
                    st = fields.get("status")
                    if st is None:
                        continue
                    if st == status("Executed"):
                        n_exec += 1
                        executed = True
                        g1 = cs_is_passed(ctx, p, base, before=i)
                        g2 = True
                        if crate == "cw3_flex_multisig":
                            g2, case = flex_authorized(p, CFG, before=i)
                            if case:
                                auth_cases.add(case)
                        ctx.ob("R05.1", key + "/Executed write", g1 and g2, sites=[e.site],
                               detail="status := Executed without the guards before the write (current_status == Passed: %s, "
                                      "authorize(info.sender) Ok: %s)" % (g1, g2), sample={"guards": [g1, g2]})
                    elif st == status("Rejected"):
                        n_close += 1
                        g1, _how = close_admission(ctx, p, base, PROP, e.key, before=i)
                        g2 = cs_not_passed(ctx, p, base, before=i)
                        g3 = is_expired_cond(p, ("field", base, "expires"), True, before=i)
                        ctx.ob("R05.3", key + "/Rejected write", g1 and g2 and g3, sites=[e.site],
                               detail="status := Rejected without all guards (stored status open-ish: %s, current_status != Passed: %s, "
                                      "expired: %s)" % (g1, g2, g3), sample={"guards": [g1, g2, g3]})
                        others = [m for h, m in ents if not is_refund(m, base)]
                        ctx.ob("R05.3", key + "/no dispatch", not others, sites=[e.site],
                               detail="Close dispatches messages other than the deposit refund: %s" % [show(m)[:120] for m in others])
                    else:
                        x = cs_call(st)
                        # ... evaluated on the stored proposal (with the new tally): current_status only moves an Open proposal, so
                        # handing it a copy whose status was reset re-opens an Executed / Rejected one
                        fwd = False
                        if x is not None:
                            xb, xf = update_base(x)
                            fwd = xb == base and set(xf) <= {"votes"}
                        ctx.ob("R05.3", key + "/status via current_status", x is not None and fwd, sites=[e.site],
                               detail="status written as %s - neither current_status(<the stored proposal, tally updated>, ..), Executed (Execute) "
                                      "nor Rejected (Close)" % show(st)[:200],
                               sample={"status": show(st)[:100]})
                # messages of the proposal may leave only after the Executed write (R05.1/R05.2)
                relays = [(h, m) for h, m in ents if any(x[0] == "field" and x[2] == "msgs" and loaded_from(x[1]) and loaded_from(x[1])[0] == PROP
                                                         for x in walk(m))]
                if relays:
                    ctx.ob("R05.1", key + "/dispatch only when Executed", executed,
                           detail="stored proposal messages are returned on a path that does not write status := Executed")
                    if executed and prop_loaded is not None:
                        want_last = ("msgs", ("field", prop_loaded, "msgs"))
                        rest = ents[:-1]
                        good = ents[-1] == want_last and all(h == "msg" and is_refund(m, prop_loaded) for h, m in rest) and len(rest) <= 1
                        ctx.ob("R05.2", key + "/messages", good,
                               detail="dispatched messages are %s; expected [optional deposit refund,] add_messages(stored.msgs) as plain messages"
                                      % [(h, show(m)[:120]) for h, m in ents],
                               sample={"messages": [(h, show(m)[:100]) for h, m in ents]})
                elif executed:
                    ctx.ob("R05.2", key + "/messages", False, detail="Executed without dispatching the stored messages")
                # any PROPOSAL_COUNT writer other than the creator?
                for i, e in enumerate(p.effects):
                    if e.kind == "write" and e.item == COUNT and not any(x[1].value[0] == "struct" for x in pw):
                        ctx.ob("R05.5", key + "/foreign PROPOSAL_COUNT write", False, sites=[e.site], detail="PROPOSAL_COUNT written outside proposal creation")
    ctx.floor("R05.1", "Executed writes", n_exec, 2)
    ctx.floor("R05.3", "Rejected writes", n_close, 2)
    ctx.floor("R05.4", "non-creating PROPOSALS writes", n_nc, 6)
    ctx.floor("R05.5", "creating PROPOSALS writes", n_create, 2)
    ctx.floor("R05.1", "executor cases seen on flex Execute paths (None / Member / Only)", len(auth_cases), 3)
    # R05.7: what is fixed at creation is also what queries keep reporting (shared with C03 R03.4)
    from . import C03
    sub = type(ctx)(ctx.pid, ctx.facts, ctx.engine, ctx.tier, ctx.tree_hash)
    C03.check_queries(sub, it)
    for k in sub.order:
        o = sub.obs[k]
        if o.rule == "R03.4" and o.key.endswith("/threshold"):
            ctx.ob("R05.7", o.key, True if o.status == "discharged" else (None if o.status == "undecided" else False),
                   detail="; ".join(o.details), sites=o.sites, sample=o.sample)
    # R05.8: "Open to Rejected" by expiry is final only if no ballot is admitted once the proposal has expired (shared with C06 R06.2)
    from . import C06
    sub6 = type(ctx)(ctx.pid, ctx.facts, ctx.engine, ctx.tier, ctx.tree_hash)
    C06.run(sub6)
    n8 = 0
    for k in sub6.order:
        o = sub6.obs[k]
        if o.rule == "R06.2" and not o.key.startswith(("anchor", "floor")):
            n8 += 1
            ctx.ob("R05.8", o.key, True if o.status == "discharged" else (None if o.status == "undecided" else False),
                   detail="; ".join(o.details), sites=o.sites, sample=o.sample)
    ctx.floor("R05.8", "vote admissions examined", n8, 2)
    # other entry points must not touch proposals
    for crate in CONTRACTS:
        eps = entry_points(ctx.facts, crate)
        for name, fn in sorted(eps.items()):
            if name == "execute":
                continue
            bad = []
            for p in ctx.summarise(fn, opaque={CS}):
                if not p.is_err():
                    bad += [e for e in p.effects if e.kind == "write" and e.item in (PROP, COUNT, BAL)]
            ctx.ob("R05.3", "%s::%s writes no proposal state" % (crate, name), not bad, sites=[e.site for e in bad],
                   detail="%s writes proposal state" % name, trivial=True)


def check_create(ctx, p, i, e, key, it, crate, CFG):
    COUNT, BAL = it["count"], it["ballots"]
    cw = [(j, x) for j, x in enumerate(p.effects) if x.kind == "write" and x.item == COUNT]
    good = False
    why = "no PROPOSAL_COUNT write before creation"
    if len(cw) == 1 and cw[0][0] < i:
        v = cw[0][1].value
        n_ = nf(v)
        prev = [a for a in n_.atoms if a[0] == "orzero" and a[1][0] == "vfield" and a[1][1][0] == "may_load" and a[1][1][1] == COUNT]
        good = len(prev) == 1 and n_.atoms == {prev[0]: 1} and n_.const == 1 and not n_.inexact and e.key == v
        if not good:
            # the same thing with the stored counter decided by a branch: Some(n) => n + 1, None => 0 + 1
            for c in p.conds:
                t = c[0]
                if t[0] == "vfield" and t[2] == "Ok" and t[1][0] == "may_load" and t[1][1] == COUNT and t[1][3] == cw[0][1].ver and c[3] <= cw[0][0]:
                    if c[1] == "Some":
                        good = n_.atoms == {("vfield", t, "Some", "0"): 1} and n_.const == 1 and not n_.inexact and e.key == v
                    elif c[1] == "None":
                        good = not n_.atoms and n_.const == 1 and not n_.inexact and e.key == v
        why = "id %s / counter %s is not (stored count or 0) + 1 used as the key of the new proposal" % (show(e.key)[:100], show(v)[:100])
        bw = [x for x in p.effects if x.kind == "write" and x.item == BAL]
        if good and not (len(bw) == 1 and bw[0].key == ("tuple", (v, SENDER))):
            good = False
            why = "proposer's ballot is not stored under (new id, info.sender)"
    ctx.ob("R05.5", key + "/id", good, detail=why, sites=[e.site], sample={"id": show(e.key)[:120]})
    # R05.6 expiry clamp
    exp = field_of(e.value, "expires")
    # the requested expiry: the `latest` field of whichever message creates the proposal (Propose, or a new message that calls the
    # same handler)
    variant_ = key.split("/")[1] if "/" in key else "Propose"
    latest = ("vfield", ("param", "msg"), variant_, "latest")
    lsel = [c[1] for c in p.conds if c[0] == latest and isinstance(c[1], str)]
    cmpc = [c for c in p.conds if c[0][0] == "call" and c[0][1].endswith("partial_cmp") and isinstance(c[1], str)]

    def is_max(mx):
        return mx[0] == "call" and mx[1].endswith("Duration::after") and mx[2][1] == BLOCK and mx[2][0][0] == "field" \
            and mx[2][0][2] == "max_voting_period" and bool(loaded_from(mx[2][0][1])) and loaded_from(mx[2][0][1])[0] == CFG
    good = False
    why = "no comparison of the requested expiry with the maximum"
    if not cmpc and lsel == ["None"]:
        # nothing requested: the default is the maximum itself, there is nothing to compare
        good = is_max(exp)
        why = "no expiry requested but the stored expiry %s is not max_voting_period.after(env.block)" % show(exp)[:120]
    elif not cmpc and lsel == ["Some"]:
        # the comparison spelled with the operators of the partial order: `wanted > max` / `wanted <= max`
        req = ("vfield", latest, "Some", "0")
        gt = le = None
        mxs = []
        for c in p.conds:
            t = c[0]
            if t[0] == "cmp" and t[1] == "lt" and t[3] == req and isinstance(c[1], bool) and is_max(t[2]):
                gt, mx_ = c[1], t[2]
                mxs.append(mx_)
            elif t[0] == "cmp" and t[1] == "le" and t[2] == req and isinstance(c[1], bool) and is_max(t[3]):
                le, mx_ = c[1], t[3]
                mxs.append(mx_)
        if not mxs:
            why = "no comparison of the requested expiry with the maximum"
        elif gt is True:
            good = exp == mxs[0]
            why = "requested expiry beyond the maximum is stored as %s, not clamped to the maximum" % show(exp)[:120]
        elif le is True:
            good = exp == req
            why = "stored expiry %s is not the requested one" % show(exp)[:120]
        else:
            why = "an expiry that is neither beyond nor within the maximum (incomparable) has an Ok-path (wanted > max: %s, wanted <= max: %s)" % (gt, le)
    elif cmpc:
        t = cmpc[0][0]
        req, mx = t[2]
        mx_ok = is_max(mx)
        req_ok = req == ("unwrap_or", latest, mx) or (lsel == ["Some"] and req == ("vfield", latest, "Some", "0")) \
            or (lsel == ["None"] and req == mx)
        some = cmpc[0][1]
        # which orderings the path still allows, however the test was spelled (match / == Some(Greater) / map+ok_or)
        payload = ("vfield", t, "Some", "0")
        ords = {"Less", "Equal", "Greater"}
        for c in p.conds:
            x, o = c[0], c[1]
            if x == payload and isinstance(o, str):
                ords &= {o}
            elif x[0] == "cmp" and x[1] == "eq" and isinstance(o, bool):
                for a_, b_ in ((x[2], x[3]), (x[3], x[2])):
                    v = None
                    if a_ == t and b_[0] == "variant" and b_[2] == "Some" and b_[3][0][1][0] == "variant":
                        v = b_[3][0][1][2]
                    elif a_ == payload and b_[0] == "variant" and not b_[3]:
                        v = b_[2]
                    if v is not None:
                        ords = (ords & {v}) if o else (ords - {v})
        if some != "Some":
            why = "an incomparable expiry (partial_cmp = None) has an Ok-path"
        elif not (mx_ok and req_ok):
            why = "comparison operands are not (requested or default, max_voting_period.after(env.block)): %s" % show(t)[:200]
        elif ords == {"Greater"}:
            good = exp == mx
            why = "requested expiry beyond the maximum is stored as %s, not clamped to the maximum" % show(exp)[:120]
        elif ords and "Greater" not in ords:
            good = exp == req or (lsel == ["None"] and exp == mx)
            why = "stored expiry %s is not the requested one" % show(exp)[:120]
        else:
            why = "ordering decision missing: %s" % sorted(ords)
    ctx.ob("R05.6", key + "/expiry", good, detail=why, sites=[e.site], sample={"expires": show(exp)[:160]})


def flex_authorized(p, CFG, before=None):
    """(authorised?, case): the decisions of path p before `before` establish that info.sender may execute under the stored
    CONFIG.executor - None: anyone; Some(Member): the sender was found in the group (is_member .. Some);
    Some(Only(a)): a == info.sender.  Recognised on the inlined decisions, wherever the authorising code lives."""
    ex = None
    kind = None
    for c in p.conds:
        if before is not None and c[3] > before:
            continue
        t = c[0]
        if t[0] == "field" and t[2] == "executor" and loaded_from(t[1]) and loaded_from(t[1])[0] == CFG and isinstance(c[1], str):
            ex, kind = t, c[1]
    if ex is None:
        return False, None
    if kind == "None":
        return True, "None"
    inner_t = ("vfield", ex, "Some", "0")
    inner = [c[1] for c in p.conds if c[0] == inner_t and (before is None or c[3] <= before)]
    if inner == ["Member"]:
        # ... in the group as it is now: a raw read of the group's member table, or its Member query without a height (a height
        # would answer from the snapshot taken at the start of that block - someone removed since then is no longer a member)
        from .C06 import group_reads
        from ..engine import NONE
        good = any(c[1] == "Some" and (before is None or c[3] <= before) and any(x == SENDER for x in walk(c[0]))
                   and any(r[0] == "raw-live" or (r[0] == "smart" and r[2] == NONE) for r in group_reads(c[0])) for c in p.conds)
        return good, "Member"
    if inner == ["Only"]:
        a = ("vfield", inner_t, "Only", "0")
        good = any(c[0][0] == "cmp" and c[0][1] == "eq" and set((c[0][2], c[0][3])) == set((a, SENDER)) and c[1] is True
                   and (before is None or c[3] <= before) for c in p.conds)
        return good, "Only"
    return False, "?"
