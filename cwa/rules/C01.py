"""C01 - cw20: total supply always equals the sum of all balances."""
from ..engine import show
from ..idioms import (cell_delta, dispatch, entry_points, field_of, inexact_ops, loaded_from, nf, storage_items,
                      update_base, walk, NF)

ID = "C01"
CRATE = "cw20_base"

RULES = {
    "R01.1": "conservation: on every Ok-path of every entry point the sum of the BALANCES deltas equals the delta of "
             "TOKEN_INFO.total_supply (signed multisets of terms)",
    "R01.2": "sign discipline: a non-zero supply delta is a single caller-chosen amount accompanied by exactly one balance "
             "delta of the same term; Mint raises, Burn/BurnFrom lower, the transfer-like variants leave supply unchanged",
    "R01.3": "exactness: every operation applied to a balance or to total_supply aborts/errs on overflow (no saturating or "
             "wrapping form)",
    "R01.4": "alias safety: each balance mutation is one `update`, or a read-modify-write with no intervening write to "
             "the same map",
    "R01.5": "genesis: instantiate saves as total_supply the accumulator of exactly the per-row amounts it saves to BALANCES, "
             "starting from zero, and the rows' addresses are validated unique before the loop",
    "R01.6": "no other writer: entry points other than execute/instantiate never write BALANCES nor change total_supply",
    "R01.7": "what is reported is what is stored: the TokenInfo query answers the stored TOKEN_INFO.total_supply and the Balance query "
             "the stored BALANCES[validated address] (zero when absent), unadjusted - the property is about the supply the token "
             "reports and the balances it lists",
    "R01.8": "the accounts it lists: the AllAccounts listing ranges over the whole BALANCES map and pages through it completely - "
             "the listing rules of C20 (R20.1 - R20.5) applied to this one listing, so no account with a balance can stay unlisted",
    "A-OVF": "release profile keeps overflow-checks = true",
}

EXPECT = {"Transfer": 0, "Send": 0, "TransferFrom": 0, "SendFrom": 0, "Burn": -1, "BurnFrom": -1, "Mint": 1}


def is_amount_atom(a, variant):
    """the atom is a field of the dispatched message variant (the caller-chosen amount)"""
    return a[0] == "vfield" and a[1] == ("param", "msg") and a[2] == variant


def analyse_path(ctx, p, entry, variant, BAL, TOK):
    """returns (balance deltas [Delta], supply Delta or None, problems[])"""
    bal, sup, problems = [], [], []
    for e in p.effects:
        if e.kind != "write":
            continue
        if e.item == BAL:
            d = cell_delta(e, path=p)
            bal.append(d)
        elif e.item == TOK:
            if e.op == "remove":
                problems.append(("TOKEN_INFO removed", e))
                continue
            d = cell_delta(e, field="total_supply", path=p)
            sup.append(d)
    return bal, sup, problems


def run(ctx):
    eng = ctx.engine
    ctx.rule_texts.update(RULES)
    ctx.assumptions += ["A-ATOMIC: a failed entry-point call leaves no state", "A-PRIMS: cw-storage-plus Map/Item API; "
                        "Uint128 checked_sub/+/+= abort or err on overflow", "A-OVF (checked here): overflow-checks=true"]
    ctx.not_decided += ["correctness of Uint128 arithmetic itself", "internals of slice::sort / Vec::dedup used by the "
                        "uniqueness validation", "that AllAccounts enumerates every key (see C20)"]
    items = storage_items(eng, CRATE)
    BAL, TOK = items.get("balance"), items.get("token_info")
    ctx.ob("R01.1", "anchor:storage namespaces balance/token_info", BAL is not None and TOK is not None,
           detail="storage items with namespaces 'balance' and 'token_info' not found in cw20-base", trivial=True)
    if BAL is None or TOK is None:
        return
    eps = entry_points(ctx.facts, CRATE)
    ctx.ob("R01.1", "anchor:entry points", "execute" in eps and "instantiate" in eps,
           detail="execute/instantiate entry points not found", trivial=True)
    n_bal_writes, n_tok_writes = set(), set()
    moving = {}
    # ---- execute
    paths = ctx.summarise(eps["execute"])
    groups = dispatch(paths)
    for variant, ps in sorted(groups.items(), key=lambda x: str(x[0])):
        for p in ps:
            if p.is_err():
                continue
            bal, sup, problems = analyse_path(ctx, p, "execute", variant, BAL, TOK)
            key = "execute/%s" % variant
            sites = [d.eff.site for d in bal + sup]
            for k_, d in enumerate(bal):
                n_bal_writes.add(("execute", variant, k_))
            for k_, d in enumerate(sup):
                n_tok_writes.add(("execute", variant, k_))
            trivial = not bal and not sup
            # R01.4 / R01.3 per write
            for d in bal + sup:
                what = "%s %s in %s" % ("BALANCES" if d.eff.item == BAL else "TOKEN_INFO", d.eff.op, d.eff.site[2])
                if d.nf is None:
                    ctx.ob("R01.4", key + "/" + what, False, detail=d.problem, sites=[d.eff.site])
                else:
                    ctx.ob("R01.4", key + "/" + what, True, sample={"write": repr(d.eff)[:300], "delta": d.nf.show()})
                    ix = list(d.nf.inexact) + inexact_ops(d.eff.value)
                    ctx.ob("R01.3", key + "/" + what, not ix,
                           detail="inexact arithmetic on a balance/supply cell: %s" % ix, sites=[d.eff.site],
                           sample={"value": show(d.eff.value)[:300]})
            if any(d.nf is None for d in bal + sup):
                continue
            total = NF()
            for d in bal:
                total.merge(d.nf, 1)
            sdelta = NF()
            for d in sup:
                sdelta.merge(d.nf, 1)
            ok = total == sdelta
            ctx.ob("R01.1", key, ok, trivial=trivial, sites=sites,
                   detail="sum of balance deltas %s != supply delta %s" % (total.show(), sdelta.show()),
                   sample={"balance_deltas": [d.nf.show() for d in bal], "supply_delta": sdelta.show()})
            # R01.2
            if sdelta.atoms or sdelta.const:
                single = len(sdelta.atoms) == 1 and sdelta.const == 0 and abs(list(sdelta.atoms.values())[0]) == 1
                amount_ok = single and is_amount_atom(list(sdelta.atoms.keys())[0], variant)
                nonzero = [d for d in bal if d.nf.atoms or d.nf.const]
                one_bal = len(nonzero) == 1 and nonzero[0].nf == sdelta
                ctx.ob("R01.2", key, bool(single and amount_ok and one_bal), sites=sites,
                       detail="supply delta %s must be one caller-chosen amount matched by exactly one equal balance delta "
                              "(balance deltas: %s)" % (sdelta.show(), [d.nf.show() for d in bal]),
                       sample={"supply_delta": sdelta.show(), "balance_delta": [d.nf.show() for d in nonzero]})
                sign = list(sdelta.atoms.values())[0] if single else 0
                moving.setdefault(variant, set()).add(sign)
            elif bal:
                moving.setdefault(variant, set()).add(0)
    # expected behaviour of the seven balance-moving variants (anchors: ExecuteMsg variant names)
    for v, sign in sorted(EXPECT.items()):
        got = moving.get(v)
        ctx.ob("R01.2", "variant:%s" % v, got == {sign},
               detail="ExecuteMsg::%s must %s (observed supply-delta signs on its Ok-paths: %s)"
                      % (v, {0: "move balances and leave supply unchanged", 1: "raise supply by the amount", -1: "lower supply by the amount"}[sign],
                         sorted(got) if got else "no balance effect"))
    for v, signs in moving.items():
        if v not in EXPECT:
            ctx.ob("R01.2", "variant:%s" % v, signs <= {0},
                   detail="variant %s changes total_supply (signs %s) but is not Mint/Burn/BurnFrom" % (v, sorted(signs)))
    # ---- instantiate
    ipaths = ctx.summarise(eps["instantiate"])
    n_gen = 0
    for p in ipaths:
        if p.is_err():
            continue
        tokw = [e for e in p.effects if e.kind == "write" and e.item == TOK]
        balw = [e for e in p.effects if e.kind == "write" and e.item == BAL]
        for k_, e in enumerate(balw):
            n_bal_writes.add(("instantiate", None, k_))
        for k_, e in enumerate(tokw):
            n_tok_writes.add(("instantiate", None, k_))
        key = "instantiate"
        if len(tokw) != 1:
            ctx.ob("R01.5", key, False, detail="instantiate Ok-path with %d TOKEN_INFO writes" % len(tokw),
                   sites=[e.site for e in tokw])
            continue
        ts = field_of(tokw[0].value, "total_supply")
        n_gen += 1
        ok, why = check_genesis(p, ts, balw, BAL, ctx)
        ctx.ob("R01.5", key, ok, detail=why, sites=[tokw[0].site] + [e.site for e in balw],
               sample={"total_supply": show(ts)[:200], "balance_saves": [show(e.value)[:120] for e in balw]})
    ctx.floor("R01.5", "instantiate Ok-paths", n_gen, 1)
    # ---- every other entry point
    for name, fn in sorted(eps.items()):
        if name in ("execute", "instantiate"):
            continue
        for p in ctx.summarise(fn):
            if p.is_err():
                continue
            for e in p.effects:
                if e.kind != "write":
                    continue
                if e.item == BAL:
                    ctx.ob("R01.6", "%s/BALANCES" % name, False, detail="%s writes BALANCES" % name, sites=[e.site])
                elif e.item == TOK:
                    d = cell_delta(e, field="total_supply", path=p) if e.op != "remove" else None
                    good = d is not None and d.nf is not None and not d.nf.atoms and not d.nf.const
                    ctx.ob("R01.6", "%s/TOKEN_INFO" % name, good, detail="%s changes total_supply" % name, sites=[e.site])
        ctx.ob("R01.6", "%s" % name, True, sample={"entry": fn, "writes_to_balances": 0})
    # ---- what is reported: the supply and balances a user sees are the stored ones
    if "query" in eps:
        qg = dispatch(ctx.summarise(eps["query"]))
        n_q = 0
        for variant, want_field, struct_field in (("TokenInfo", "total_supply", "total_supply"), ("Balance", None, "balance")):
            for p in qg.get(variant, []):
                if p.is_err():
                    continue
                got = None
                for x in walk(p.ret):
                    if x[0] == "struct" and dict(x[2]).get(struct_field) is not None and x[1].endswith(("TokenInfoResponse", "BalanceResponse")):
                        got = dict(x[2])[struct_field]
                n_q += 1
                if variant == "TokenInfo":
                    lf = loaded_from(got[1]) if got is not None and got[0] == "field" and got[2] == "total_supply" else None
                    good = lf is not None and lf[0] == TOK
                else:
                    g = got
                    if g is not None and g[0] == "call" and g[1] in ("unwrap_or", "unwrap_or_default") and g[2]:
                        g = ("vfield", g[2][0], "Some", "0") if g[2][0][0] != "vfield" or g[2][0][2] != "Some" else g[2][0]
                    lf = loaded_from(g) if g is not None else None
                    if lf is None and g is not None and (g[0] == "default" or g == ("lit", 0) or (g[0] == "call" and g[1].endswith("zero"))):
                        # `None => Uint128::zero()` on the path that found no entry
                        for c in p.conds:
                            if c[1] == "None" and loaded_from(("vfield", c[0], "Some", "0")):
                                lf = loaded_from(("vfield", c[0], "Some", "0"))
                    addr = ("vfield", ("call", "cosmwasm_std::Api::addr_validate", (("field", ("param", "deps"), "api"),
                                                                                    ("vfield", ("param", "msg"), "Balance", "address"))), "Ok", "0")
                    good = lf is not None and lf[0] == BAL and lf[1] == addr
                ctx.ob("R01.7", "query/%s" % variant, good, sample={"reported": show(got)[:160] if got else None},
                       detail="%s reports %s, not the stored %s" % (variant, show(got)[:200] if got else "nothing recognisable",
                                                                   "TOKEN_INFO.total_supply" if variant == "TokenInfo" else "BALANCES[address] (zero when absent)"))
        ctx.floor("R01.7", "TokenInfo / Balance answers", n_q, 2)
        check_accounts_listing(ctx, qg)
    # helpers reachable from no entry point are not transactions; but public functions writing BALANCES
    # that are not reached are listed for the reader
    ctx.floor("R01.1", "balance-moving ExecuteMsg variants", len([v for v in moving if v in EXPECT]), 7)
    ctx.floor("R01.4", "BALANCES writes (entry, variant, ordinal)", len(n_bal_writes), 12)
    ctx.floor("R01.4", "TOKEN_INFO writes (entry, variant, ordinal)", len(n_tok_writes), 5)
    check_ovf(ctx)


def check_genesis(p, ts, balw, BAL, ctx=None):
    """ts: the total_supply term saved.  Returns (ok, why)."""
    if not balw:
        # zero-iteration path: the accumulator at loop entry
        if ts[0] == "loopvar":
            lk, var = ts[1], ts[2]
            ent = [e for e in p.effects if e.kind == "loop_enter" and e.name == lk]
            stp = [e for e in p.effects if e.kind == "loop_step" and e.name == lk]
            adv = [e for e in stp if e.value.get(var) is not None and e.value.get(var) != ("loopvar", lk, var, 0)]
            if adv:
                # an iteration that adds its row to the supply but creates no balance (a `continue` past the save)
                return False, "an iteration adds %s to the supply accumulator without saving a balance for that row" \
                    % show(adv[0].value.get(var))[:160]
            if ent and ent[0].value.get(var) == ("lit", 0):
                return True, None
            return False, "accumulator %s does not start from zero: %s" % (var, show(ent[0].value.get(var)) if ent else "?")
        if ts == ("lit", 0):
            return True, None
        return False, "total_supply %s saved without any balance write" % show(ts)
    if ts[0] != "loopvar":
        return False, "total_supply saved (%s) is not the loop accumulator of the balance-creating loop" % show(ts)[:200]
    lk, var = ts[1], ts[2]
    ent = [e for e in p.effects if e.kind == "loop_enter" and e.name == lk]
    stp = [e for e in p.effects if e.kind == "loop_step" and e.name == lk]
    if not ent or not stp:
        return False, "loop bookkeeping missing for accumulator"
    if ent[0].value.get(var) != ("lit", 0):
        return False, "accumulator %s does not start from zero: %s" % (var, show(ent[0].value.get(var)))
    inloop = [e for e in balw if lk in e.loops]
    if len(inloop) != len(balw):
        return False, "BALANCES written outside the accumulating loop"
    if len(inloop) != 1:
        return False, "%d BALANCES writes per iteration" % len(inloop)
    w = inloop[0]
    if w.op != "save" and w.op != "update":
        return False, "unexpected balance op %s" % w.op
    step = nf(stp[0].value.get(var))
    prev = ("loopvar", lk, var, 0)
    if step.atoms.get(prev, 0) != 1:
        return False, "accumulator step is not previous + amount: %s" % show(stp[0].value.get(var))
    step.add_atom(prev, -1)
    if step.inexact:
        return False, "inexact accumulator arithmetic %s" % step.inexact
    if w.op == "save":
        saved = nf(w.value)
        if not (saved == step):
            return False, "amount saved to BALANCES %s differs from amount added to total_supply %s" % (saved.show(), step.show())
        # UNIQUE-KEYS: a save overwrites; duplicates must have been rejected before the loop
        coll = None
        it = [e for e in p.effects if e.kind == "loop_enter" and e.name == lk]
        idx = p.effects.index(it[0])
        uniq = False
        for c in p.conds:
            if c[3] > idx:
                continue
            names = [x[1] for x in walk(c[0]) if x[0] == "call"]
            if any(n.startswith("dedup") for n in names) and any(n.startswith("sort") for n in names):
                okd, whyd = sorted_dedup_ok(ctx, c[0])
                if not okd:
                    return False, "duplicate validation by sort + dedup does not validate the addresses: " + whyd
                uniq = True
            if any("BTreeSet" in n or "HashSet" in n for n in names):
                uniq = True
            if ctx is not None and pairwise_unique(ctx, c):
                uniq = True
        if not uniq and infeasible_emptiness(p, lk):
            return True, None
        if not uniq:
            return False, "balances are created with `save` (overwrite) but no uniqueness validation (sort+dedup / set insert) " \
                          "of the account list guards the loop: a repeated address is summed twice and stored once"
        # the key must be an injective image of what was validated unique: addr_validate(<element>.address) is the identity on
        # success; a normalising conversion (canonicalize/humanize, lower-casing) maps distinct validated strings to one key
        k = w.key
        if not (k[0] == "vfield" and k[2] == "Ok" and k[1][0] == "call" and k[1][1].endswith("Api::addr_validate")
                and k[1][2][-1][0] == "field" and k[1][2][-1][2] == "address"
                and k[1][2][-1][1][0] == "vfield" and k[1][2][-1][1][1][0] == "calli"):
            return False, "balance key %s is not addr_validate(<row>.address): uniqueness was validated on the raw address strings, " \
                          "a key derived otherwise can map two distinct rows to one account" % show(k)[:200]
        return True, None
    # update form: insert-if-absent or additive
    d = cell_delta(w)
    if d.nf is None or not (d.nf == step):
        return False, "balance update delta differs from accumulator step"
    return True, None


def _strip_iter(t):
    while t[0] == "call" and t[2] and t[1].split("::")[-1] in ("iter", "into_iter", "enumerate", "cloned", "copied", "by_ref"):
        t = t[2][0]
    return t


def infeasible_emptiness(p, lk):
    """the path took an element from the collection loop `lk` iterates although an earlier loop over the same (unmodified)
    collection found it empty: both cannot happen in one execution, the path has nothing to answer for"""
    def coll_and_taken(e):
        ivars = [c[0][2][0][2] for c in p.conds if c[0][0] == "calli" and c[0][1] == "next" and c[0][2][0][0] == "loopvar" and c[0][2][0][1] == e.name]
        if not ivars or ivars[0] not in e.value:
            return None, False
        took = any(c[0][0] == "calli" and c[0][1] == "next" and c[0][2][0][0] == "loopvar" and c[0][2][0][1] == e.name and c[0][2][0][3] == 0
                   and c[1] == "Some" for c in p.conds)
        return _strip_iter(e.value[ivars[0]]), took
    ents = [e for e in p.effects if e.kind == "loop_enter"]
    mine = [e for e in ents if e.name == lk]
    if not mine:
        return False
    c0, took0 = coll_and_taken(mine[0])
    if c0 is None or not took0:
        return False
    for e in ents:
        if e.name == lk or p.effects.index(e) > p.effects.index(mine[0]):
            continue
        c1, took1 = coll_and_taken(e)
        if c1 == c0 and not took1:
            return True
    return False


def _closure_ret(ctx, clos, nargs):
    """result term of a pure closure applied to symbolic arguments A, B (None unless it has exactly one path)"""
    if not (isinstance(clos, tuple) and clos and clos[0] == "closure") or ctx is None:
        return None
    b = ctx.engine.by_dp.get(clos[1])
    if b is None:
        return None
    args = [clos] + [("param", n) for n in ("A", "B")[:nargs]]
    try:
        cps = ctx.engine.summarise(b, args=args)
    except Exception:
        return None
    return cps[0].ret if len(cps) == 1 else None


def _is_addr_of(t, who):
    """t is <who>.address, possibly cloned / borrowed / viewed as str"""
    n = 0
    while t[0] == "call" and t[2] and t[1].split("::")[-1] in ("clone", "as_str", "as_ref", "deref", "to_string", "to_owned", "borrow") and n < 4:
        t, n = t[2][0], n + 1
    return t == ("field", ("param", who), "address")


def sorted_dedup_ok(ctx, term):
    """`dedup*(sort*(rows))` removes every repeated address only if the order that sorts and the equality that removes look at the
    same thing, the address: natural order + natural equality of plain strings, or key / comparison closures that project
    `.address`.  Rows sorted by the row type's own Ord impl (whatever it compares first) are not sorted by address."""
    found = False
    for d in walk(term):
        if not (d[0] == "call" and d[1].startswith("dedup") and d[2]):
            continue
        s = d[2][0]
        if not (s[0] == "call" and s[1].startswith("sort") and s[2]):
            continue
        found = True
        for what, t in (("sorted", s), ("de-duplicated", d)):
            op, extra = t[1], t[2][1:]
            if not extra:
                continue            # natural order / equality of a library type (strings): total order consistent with equality
            x = extra[0]
            if x[0] == "str" and x[1].startswith("by-impl:"):
                return False, "the rows are %s by the `%s` impl of %s itself, not by address (equal addresses need not be adjacent / " \
                              "equal rows need equal amounts)" % (what, "Ord" if what == "sorted" else "PartialEq", x[1][8:])
            if op.endswith("_by_key") or op.endswith("cached_key"):
                r = _closure_ret(ctx, x, 1)
                if r is None or not _is_addr_of(r, "A"):
                    return False, "%s by a key that is not the row's address: %s" % (what, show(r)[:120] if r else "closure not summarised")
            else:
                r = _closure_ret(ctx, x, 2)
                good = False
                if r is not None and r[0] == "cmp" and r[1] == "eq":
                    good = (_is_addr_of(r[2], "A") and _is_addr_of(r[3], "B")) or (_is_addr_of(r[2], "B") and _is_addr_of(r[3], "A"))
                elif r is not None and r[0] == "call" and r[1].split("::")[-1] in ("cmp", "partial_cmp") and len(r[2]) == 2:
                    good = (_is_addr_of(r[2][0], "A") and _is_addr_of(r[2][1], "B")) or (_is_addr_of(r[2][0], "B") and _is_addr_of(r[2][1], "A"))
                if not good:
                    return False, "%s by a comparison that is not on the rows' addresses: %s" % (what, show(r)[:120] if r else "closure not summarised")
    if not found:
        return False, "no dedup applied to a sorted list"
    return True, None


def pairwise_unique(ctx, c):
    """the decision `list[..i].iter().any(|earlier| earlier.address == list[i].address)` = false for the i-th element of an
    enumerate() over the same list: every element is compared with all earlier ones (quadratic duplicate check)"""
    t, o = c[0], c[1]
    if not (t[0] == "call" and t[1].split("::")[-1] == "any" and len(t[2]) == 2 and o is False):
        return False
    src, clos = t[2]
    if not (src[0] == "call" and src[1].endswith("::index") and len(src[2]) == 2 and clos[0] == "closure" and len(clos[2]) == 1):
        return False
    lst, rng = src[2]
    if not (rng[0] == "struct" and rng[1].endswith("RangeTo") and dict(rng[2]).get("end") is not None):
        return False
    end = dict(rng[2])["end"]
    up = clos[2][0]
    # i and the later element are the two halves of one enumerate() item over the same list
    later = ("field", end[1], "1") if end[0] == "field" and end[2] == "0" else None
    whole = up == later
    addr_only = up == ("field", later, "address")       # edition-2021 closures capture just the field they use
    if later is None or not (whole or addr_only):
        return False
    e = end[1]
    if not (e[0] == "vfield" and e[1][0] == "calli" and e[1][1] == "next"):
        return False
    b = ctx.engine.by_dp.get(clos[1])
    if b is None:
        return False
    u = ("param", "UPVAR")
    cps = ctx.engine.summarise(b, args=[("closure", clos[1], (u,)), ("param", "ELEM")])
    if len(cps) != 1:
        return False
    r = cps[0].ret
    want = {("field", u, "address") if whole else u, ("field", ("param", "ELEM"), "address")}
    return r[0] == "cmp" and r[1] == "eq" and set(r[2:4]) == want


def check_ovf(ctx):
    from ..idioms import check_overflow_profile
    check_overflow_profile(ctx)


class _As(object):
    """records the obligations of a shared clause under this property's rule id"""
    def __init__(self, ctx, rule):
        self._ctx, self._rule = ctx, rule

    def ob(self, rule, key, ok, **kw):
        return self._ctx.ob(self._rule, "%s %s" % (rule, key), ok, **kw)

    def __getattr__(self, name):
        return getattr(self._ctx, name)


def check_accounts_listing(ctx, groups):
    from . import C20
    from .listing import extract
    spec = C20.LISTINGS[("cw20_base", "AllAccounts")]
    sub = _As(ctx, "R01.8")
    n = 0
    for p in groups.get("AllAccounts", []):
        if p.is_err():
            continue
        L = extract(p)
        key = "cw20_base::query/AllAccounts"
        if L is None or L.problem or L.page is None:
            ctx.ob("R01.8", key + "/shape", False, detail="the account listing is not a paged range over storage: %s" % (
                (L.problem if L is not None else None) or show(p.ret)[:160]))
            continue
        n += 1
        C20.check_listing(sub, p, key, "cw20_base", "AllAccounts", spec, L)
    ctx.floor("R01.8", "AllAccounts paths (with and without cursor)", n, 2)
