"""shared recognisers for the cw1 proxies"""
from ..engine import show
from ..idioms import storage_items, loaded_from, walk

SENDER = ("field", ("param", "info"), "sender")
BLOCK = ("field", ("param", "env"), "block")
IS_EXPIRED = "cw_utils::Expiration::is_expired"
NB_SUB = "<cw_utils::NativeBalance as std::ops::Sub>::sub"
NB_SUB_SAT = "cw_utils::NativeBalance::sub_saturating"


def items(ctx):
    w = storage_items(ctx.engine, "cw1_whitelist")
    s = storage_items(ctx.engine, "cw1_subkeys")
    return w.get("admin_list"), s.get("allowances"), s.get("permissions")


def match_is_admin(ctx, t):
    """t == any(<list>.admins, closure{addr}) with the closure body `elem == addr`  ->  (list owner, addr)"""
    if not (isinstance(t, tuple) and t and t[0] == "call" and t[1] == "any" and len(t[2]) == 2):
        return None
    lst, clos = t[2]
    if not (lst[0] == "field" and lst[2] == "admins" and clos[0] == "closure" and len(clos[2]) == 1):
        return None
    key = ("is_admin_closure", clos[1])
    ok = ctx.cache.get(key)
    if ok is None:
        b = ctx.engine.by_dp.get(clos[1])
        ok = False
        if b is not None:
            up = ("param", "UPVAR")
            ps = ctx.engine.summarise(b, args=[("closure", clos[1], (up,)), ("param", "ELEM")])
            ok = len(ps) == 1 and ps[0].ret[0] == "cmp" and ps[0].ret[1] == "eq" and \
                set(ps[0].ret[2:4]) == set((up, ("param", "ELEM")))
        ctx.cache[key] = ok
        ctx.ob("is_admin", "membership closure %s" % (b.path if b else clos[1]), ok,
               detail="the closure used for admin membership is not `element == address`", trivial=True)
    if not ok:
        return None
    return lst[1], clos[2][0]


def admin_cond(ctx, p, ADMIN, who, before=None):
    """polarity of the decision `is_admin(stored ADMIN_LIST, who)` on path p (None if absent)"""
    for c in p.conds:
        if before is not None and c[3] > before:
            continue
        m = match_is_admin(ctx, c[0])
        if m is None:
            continue
        lf = loaded_from(m[0])
        if lf is not None and lf[0] == ADMIN and m[1] == who and isinstance(c[1], bool):
            return c[1], m[0]
    return None, None
