"""shared recognisers for the cw1 proxies"""
from ..engine import show
from ..idioms import storage_items, loaded_from, walk

SENDER = ("field", ("param", "info"), "sender")
BLOCK = ("field", ("param", "env"), "block")
IS_EXPIRED = "cw_utils::Expiration::is_expired"
NB_SUB = "<cw_utils::NativeBalance as std::ops::Sub>::sub"
NB_SUB_SAT = "cw_utils::NativeBalance::sub_saturating"


def items(ctx):
    w = storage_items(ctx.engine, "cw1_whitelist")
    s = storage_items(ctx.engine, "cw1_subkeys")
    return w.get("admin_list"), s.get("allowances"), s.get("permissions")


def _elementwise_identity(name):
    from .. import prims
    return prims.lookup(name, name) is prims.p_identity


def _admins_of(t):
    """t is <list>.admins (possibly behind iterator adapters that keep every element) -> list term"""
    while t[0] == "call" and t[2]:
        op = t[1].split("::")[-1]
        if op in ("iter", "into_iter", "cloned", "copied", "by_ref"):
            t = t[2][0]
        elif op == "map" and len(t[2]) == 2 and t[2][1][0] == "fnitem" and _elementwise_identity(t[2][1][2]):
            t = t[2][0]     # admins.iter().map(Addr::as_str): the same elements, viewed as strings
        else:
            break
    if t[0] == "field" and t[2] == "admins":
        return t[1]
    return None


def match_is_admin(ctx, t):
    """t == any(<list>.admins, closure{addr}) with the closure body `elem == addr`  ->  (list owner, addr)"""
    if not (isinstance(t, tuple) and t and t[0] == "call" and t[1] == "any" and len(t[2]) == 2):
        return None
    lst, clos = t[2]
    owner = _admins_of(lst)
    if not (owner is not None and clos[0] == "closure" and len(clos[2]) == 1):
        return None
    lst = ("field", owner, "admins")
    key = ("is_admin_closure", clos[1])
    ok = ctx.cache.get(key)
    if ok is None:
        b = ctx.engine.by_dp.get(clos[1])
        ok = False
        if b is not None:
            up = ("param", "UPVAR")
            ps = ctx.engine.summarise(b, args=[("closure", clos[1], (up,)), ("param", "ELEM")])
            ok = len(ps) == 1 and ps[0].ret[0] == "cmp" and ps[0].ret[1] == "eq" and \
                set(ps[0].ret[2:4]) == set((up, ("param", "ELEM")))
        ctx.cache[key] = ok
        ctx.ob("is_admin", "membership closure %s" % (b.path if b else clos[1]), ok,
               detail="the closure used for admin membership is not `element == address`", trivial=True)
    if not ok:
        return None
    return lst[1], clos[2][0]


def admin_decisions(ctx, p, ADMIN, before=None):
    """every decision `is <who> in stored ADMIN_LIST.admins` on path p: [(who, polarity, list term, [cond indices])].
    Recognised spellings: admins.iter().any(|a| a == who), admins.contains(&who), and a hand-written scan
    (`for a in &admins { if a == who { return true } } false`), which the summariser traverses zero times / once."""
    out = []
    conds = [(i, c) for i, c in enumerate(p.conds) if before is None or c[3] <= before]
    for i, c in conds:
        m = match_is_admin(ctx, c[0])
        if m is not None and isinstance(c[1], bool):
            lf = loaded_from(m[0])
            if lf is not None and lf[0] == ADMIN:
                out.append((m[1], c[1], m[0], [i]))
            continue
        t = c[0]
        if t[0] == "call" and t[1].split("::")[-1] == "contains" and len(t[2]) == 2 and isinstance(c[1], bool):
            lst = _admins_of(t[2][0])
            lf = loaded_from(lst) if lst is not None else None
            if lf is not None and lf[0] == ADMIN:
                out.append((t[2][1], c[1], lst, [i]))
    # scan loops over <stored>.admins
    for e in p.effects:
        if e.kind != "loop_enter":
            continue
        lst = None
        for v in e.value.values():
            l = _admins_of(v)
            if l is not None and loaded_from(l) is not None and loaded_from(l)[0] == ADMIN:
                lst = l
        if lst is None:
            continue
        lk = e.name
        idx, who, hit = [], None, False
        elems = []
        for i, c in conds:
            t = c[0]
            if t[0] == "calli" and t[1] == "next" and t[2][0][0] == "loopvar" and t[2][0][1] == lk:
                idx.append(i)
                if c[1] == "Some":
                    elems.append(("vfield", t, "Some", "0"))
        for i, c in conds:
            t = c[0]
            if t[0] == "cmp" and t[1] == "eq" and isinstance(c[1], bool) and (t[2] in elems or t[3] in elems):
                other = t[3] if t[2] in elems else t[2]
                if who is None or who == other:
                    who = other
                    idx.append(i)
                    hit = hit or c[1]
        if idx and (before is None or p.effects.index(e) <= before):
            # zero iterations (empty list) decide `not an admin` for whoever is asked: who stays None = wildcard
            out.append((who, hit, lst, idx))
    # index scans: `while i < admins.len() { if admins[i] == who { return true } i += 1 }`
    byloop = {}
    for i, c in conds:
        t = c[0]
        if t[0] != "cmp":
            continue
        for a, b in ((t[2], t[3]), (t[3], t[2])):
            base = ixv = None
            if a[0] == "index":
                base, ixv = a[1], a[2]
            elif a[0] == "call" and a[1].endswith("Index>::index") and len(a[2]) == 2:
                base, ixv = a[2]
            elif a[0] == "call" and a[1] == "len" and t[1] == "lt" and a is t[3]:
                # the loop guard i < admins.len()
                l = _admins_of(a[2][0])
                if l is not None and loaded_from(l) is not None and loaded_from(l)[0] == ADMIN and b[0] == "loopvar":
                    byloop.setdefault(b[1], {"lst": l, "idx": [], "who": None, "hit": False})["idx"].append(i)
                continue
            if base is None or ixv[0] != "loopvar" or t[1] != "eq" or not isinstance(c[1], bool):
                continue
            l = _admins_of(base)
            if l is None or loaded_from(l) is None or loaded_from(l)[0] != ADMIN:
                continue
            d = byloop.setdefault(ixv[1], {"lst": l, "idx": [], "who": None, "hit": False})
            if d["who"] is None or d["who"] == b:
                d["who"] = b
                d["idx"].append(i)
                d["hit"] = d["hit"] or c[1]
    for lk, d in byloop.items():
        out.append((d["who"], d["hit"], d["lst"], d["idx"]))
    return out


def admin_cond(ctx, p, ADMIN, who, before=None):
    """polarity of the decision `is_admin(stored ADMIN_LIST, who)` on path p (None if absent)"""
    for w, pol, lst, _ in admin_decisions(ctx, p, ADMIN, before):
        if w == who or (w is None and pol is False):
            return pol, lst
    return None, None


def _old_admin_cond(ctx, p, ADMIN, who, before=None):
    """polarity of the decision `is_admin(stored ADMIN_LIST, who)` on path p (None if absent)"""
    for c in p.conds:
        if before is not None and c[3] > before:
            continue
        m = match_is_admin(ctx, c[0])
        if m is None:
            continue
        lf = loaded_from(m[0])
        if lf is not None and lf[0] == ADMIN and m[1] == who and isinstance(c[1], bool):
            return c[1], m[0]
    return None, None
