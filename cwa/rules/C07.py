"""C07 - cw1: the proxy relays exactly the submitted messages, only when authorised."""
from ..engine import show
from ..idioms import dispatch, entry_points, response_entries, loaded_from
from .cw1common import SENDER, items, admin_cond, NB_SUB

ID = "C07"
RULES = {
    "R07.1": "relay identity: every Ok-path of ExecuteMsg::Execute returns a response whose only messages are "
             "add_messages(<the msgs parameter itself>); every other variant relays nothing",
    "R07.2": "cw1-whitelist: the relay is on a path with is_admin(stored ADMIN_LIST, info.sender) = true",
    "R07.3": "cw1-subkeys: a relaying path is an admin path, or iterates the whole msgs list and every iteration that does "
             "not fail is one of: Staking with the caller's stored permissions present and the matching flag true; "
             "Distribution likewise; Bank::Send with a spend on ALLOWANCES[info.sender] of that message's coins; no other "
             "message kind has a successful iteration",
    "R07.5": "the grants the relay relies on change only through the guarded handlers, and an allowance's expiry changes only to a requested, "
             "unexpired one - a top-up never clears it (shared with C08 R08.4 / R08.5 / R08.7 and C17 R17.4): "
             "no other entry point rewrites ALLOWANCES / PERMISSIONS, so an allowance's expiry and balance are the ones admins set",
    "R07.4": "flag mapping: Delegate=>delegate, Undelegate=>undelegate, Redelegate=>redelegate, "
             "SetWithdrawAddress=>withdraw, WithdrawDelegatorReward=>withdraw; any other staking/distribution kind has no Ok-path",
}
FLAGS = {("Staking", "Delegate"): "delegate", ("Staking", "Undelegate"): "undelegate", ("Staking", "Redelegate"): "redelegate",
         ("Distribution", "SetWithdrawAddress"): "withdraw", ("Distribution", "WithdrawDelegatorReward"): "withdraw"}


def run(ctx):
    ctx.rule_texts.update(RULES)
    ctx.assumptions += ["A-ATOMIC", "A-PRIMS", "Response::add_messages(v) appends exactly the elements of v in order"]
    ADMIN, ALW, PERM = items(ctx)
    if not ctx.ob("R07.1", "anchor:storage namespaces", None not in (ADMIN, ALW, PERM), trivial=True,
                  detail="admin_list / allowances / permissions namespaces not found"):
        return
    msgs = ("vfield", ("param", "msg"), "Execute", "msgs")
    relays = 0
    seen_kinds = set()
    for crate in ("cw1_whitelist", "cw1_subkeys"):
        eps = entry_points(ctx.facts, crate)
        paths = ctx.summarise(eps["execute"])
        for variant, ps in sorted(dispatch(paths).items(), key=lambda x: str(x[0])):
            key = "%s::execute/%s" % (crate, variant)
            for p in ps:
                if p.is_err():
                    continue
                ents = response_entries(p)
                if ents is None:
                    ctx.ob("R07.1", key, None, detail="UNDECIDED: response not built in the handler: %s" % show(p.ret)[:160])
                    continue
                if variant != "Execute":
                    ctx.ob("R07.1", key, not ents, detail="variant %s dispatches messages %s" % (variant, [show(m)[:100] for _, m in ents]), trivial=True)
                    continue
                relays += 1
                ctx.ob("R07.1", key, ents == [("msgs", msgs)],
                       detail="relayed messages are %s, not exactly add_messages(msgs)" % [(h, show(m)[:160]) for h, m in ents],
                       sample={"messages": [(h, show(m)) for h, m in ents]})
                pol, _ = admin_cond(ctx, p, ADMIN, SENDER)
                if crate == "cw1_whitelist":
                    ctx.ob("R07.2", key, pol is True, detail="relay without is_admin(stored, info.sender) = true (decision: %s)" % pol,
                           sample={"guard": "is_admin(stored ADMIN_LIST, info.sender) = true"})
                    continue
                if pol is True:
                    ctx.ob("R07.3", key + "/admin", True, sample={"path": "admin short-circuit"})
                    continue
                if pol is None:
                    ctx.ob("R07.3", key + "/non-admin", False, detail="relay path without an is_admin decision")
                    continue
                check_subkey_path(ctx, p, key, msgs, ALW, PERM, seen_kinds)
    # every other entry point (instantiate, migrate, ...) relays nothing
    for crate in ("cw1_whitelist", "cw1_subkeys"):
        for ename, fn in sorted(entry_points(ctx.facts, crate).items()):
            if ename in ("execute", "query"):
                continue
            bad = []
            for p in ctx.summarise(fn):
                if p.is_err():
                    continue
                ents = response_entries(p)
                if ents is None and any(x[0] == "variant" and x[1].endswith(("CosmosMsg", "BankMsg", "WasmMsg")) for x in __import__("cwa.idioms", fromlist=["walk"]).walk(p.ret)):
                    bad.append(show(p.ret)[:120])
                elif ents:
                    bad += [show(m)[:120] for _, m in ents]
            ctx.ob("R07.1", "%s::%s dispatches nothing" % (crate, ename), not bad, detail="%s dispatches %s" % (ename, bad[:3]), trivial=True)
    from . import C08
    sub = type(ctx)(ctx.pid, ctx.facts, ctx.engine, ctx.tier, ctx.tree_hash)
    C08.run(sub)
    for k in sub.order:
        o = sub.obs[k]
        if o.rule in ("R08.4", "R08.5", "R08.7") and not o.key.startswith(("anchor", "floor")):
            ctx.ob("R07.5", o.key, True if o.status == "discharged" else (None if o.status == "undecided" else False),
                   detail="; ".join(o.details), sites=o.sites, sample=o.sample)
    ctx.floor("R07.1", "relaying Ok-paths", relays, 3)
    ctx.floor("R07.4", "permission-checked message kinds", len(seen_kinds), 6)


def check_subkey_path(ctx, p, key, msgs, ALW, PERM, seen_kinds):
    ent = [e for e in p.effects if e.kind == "loop_enter"]
    over = [e for e in ent if any(v == msgs for v in e.value.values())]
    if not over:
        ctx.ob("R07.3", key + "/non-admin", False,
               detail="non-admin relay path does not iterate the whole msgs list (loops: %s)" % [sorted(e.value.items())[:2] for e in ent])
        return
    # the loop that examines the messages; a separate loop that only accumulates the response (`fold(Response::new(), add_message)`)
    # is the relay itself and is judged by response_entries above
    def relays(e):
        return any(isinstance(v, tuple) and v and v[0] == "resp" for v in e.value.values())
    checkers = [e for e in over if not relays(e)] or over
    lk = checkers[0].name

    def first_elem(name):
        for c in p.conds:
            t = c[0]
            if t[0] == "calli" and t[1] == "next" and c[1] == "Some" and t[2][0][0] == "loopvar" and t[2][0][1] == name and t[2][0][3] == 0:
                return ("vfield", t, "Some", "0")
        return None
    elem = first_elem(lk)
    if elem is None:
        if any(first_elem(e.name) is not None for e in over):
            return          # one loop finds the unmodified list empty, another finds an element in it: not an execution
        ctx.ob("R07.3", key + "/non-admin/empty list", True, sample={"path": "zero messages relayed"})
        return
    kind = None
    for c in p.conds:
        if c[0] == elem and isinstance(c[1], str):
            kind = c[1]
    k2 = key + "/non-admin/" + str(kind)
    if kind in ("Staking", "Distribution"):
        inner = ("vfield", elem, kind, "0")
        sub = None
        for c in p.conds:
            if c[0] == inner and isinstance(c[1], str):
                sub = c[1]
        flag = FLAGS.get((kind, sub))
        perm = None
        for c in p.conds:
            lf = loaded_from(("vfield", c[0], "Some", "0")) if c[1] == "Some" else None
            if lf and lf[0] == PERM and lf[1] == SENDER:
                perm = ("vfield", c[0], "Some", "0")
        good = flag is not None and perm is not None and any(c[0] == ("field", perm, flag) and c[1] is True for c in p.conds)
        seen_kinds.add((kind, sub))
        ctx.ob("R07.4", k2 + "::" + str(sub), good,
               detail="%s::%s relayed for a non-admin without PERMISSIONS[info.sender] present and flag `%s` = true" % (kind, sub, flag),
               sample={"kind": "%s::%s" % (kind, sub), "flag": flag})
    elif kind == "Bank":
        inner = ("vfield", elem, "Bank", "0")
        sub = None
        for c in p.conds:
            if c[0] == inner and isinstance(c[1], str):
                sub = c[1]
        amount = ("vfield", inner, "Send", "amount")
        spends = [e for e in p.effects if e.kind == "write" and e.item == ALW and e.key == SENDER and lk_in(e, p)]
        good = sub == "Send" and len(spends) == 1 and any(x == amount for x in subterms(spends[0].value))
        why = "Bank::%s relayed for a non-admin without exactly one spend of that message's coins on ALLOWANCES[info.sender]" % sub
        if good:
            # the spend must have the checked form of C08 R08.1: atomic update of the *stored* allowance (entry present,
            # unexpired, balance - coins with the checked subtraction) - a cached or saturating allowance covers nothing
            from .C08 import check_spend
            idx = p.effects.index(spends[0])
            prob = check_spend(p, idx, spends[0])
            if prob is not None:
                good = False
                why = "Bank::Send relayed for a non-admin but the allowance is not checked against the stored value: " + prob
        seen_kinds.add((kind, sub))
        ctx.ob("R07.3", k2 + "::" + str(sub), good, detail=why, sites=[e.site for e in spends],
               sample={"spend": repr(spends[0])[:240] if spends else None})
    else:
        ctx.ob("R07.3", k2, False, detail="message kind %s has a successful non-admin iteration (must be rejected)" % kind)


def lk_in(e, p):
    return bool(e.loops)


def subterms(t):
    from ..idioms import walk
    return walk(t)
