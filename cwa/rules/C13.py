"""C13 - cw20: only the current minter mints, and never beyond the cap."""
from ..engine import show, OPTION
from ..idioms import (cell_delta, dispatch, entry_points, field_of, loaded_from, nf, storage_items, update_base, NF, order_facts)

ID = "C13"
CRATE = "cw20_base"
SENDER = ("field", ("param", "info"), "sender")

RULES = {
    "R13.1": "every Ok-path outside instantiate that raises total_supply has, before the write, the stored `mint` present and "
             "stored mint.minter == info.sender",
    "R13.2": "on those paths, when the stored cap is Some(limit), the condition (limit < <the total that is saved>) = false "
             "precedes the save - the compared term is the saved term",
    "R13.3": "who may write TokenInfo.mint: instantiate, and paths guarded as R13.1; the new value is None or "
             "MinterData{minter: validated new address, cap: stored cap}",
    "R13.5": "tokens come into existence only where the supply rises (shared with C01 R01.1 / R01.2 / R01.4): on every path the sum of "
             "balance changes equals the supply change, so no handler other than the guarded mint can create tokens and the supply "
             "the cap is compared with is the true one",
    "R13.4": "instantiate: when a cap is given, (cap < total_supply) = false guards the TOKEN_INFO save",
}


def minter_guard(p, base, before):
    """conds before index `before`: base.mint is Some and (base.mint.minter == info.sender) is True"""
    mint = ("field", base, "mint")
    some = any(c[0] == mint and c[1] == "Some" and c[3] <= before for c in p.conds)
    minter = ("field", ("vfield", mint, "Some", "0"), "minter")
    eq = any(c[0][0] == "cmp" and c[0][1] == "eq" and set((c[0][2], c[0][3])) == set((minter, SENDER)) and c[1] is True
             and c[3] <= before for c in p.conds)
    return some, eq


def cap_guard(p, base, saved_total, before):
    """either stored cap is None on this path, or (cap lt saved_total)=False recorded before the write"""
    mint = ("field", base, "mint")
    cap = ("field", ("vfield", mint, "Some", "0"), "cap")
    for c in p.conds:
        if c[0] == cap and c[1] == "None":
            return True, "cap None"
    limit = ("vfield", cap, "Some", "0")
    for lo, hi, strict, c in order_facts(p.conds, before=before):
        if lo == saved_total and hi == limit:
            return True, "cap checked"
    return False, None


def run(ctx):
    eng = ctx.engine
    ctx.rule_texts.update(RULES)
    ctx.assumptions += ["A-ATOMIC", "A-PRIMS", "Addr equality is address identity"]
    ctx.not_decided += ["that the cap comparison on Uint128 is numerically correct (trusted primitive)"]
    items = storage_items(eng, CRATE)
    TOK = items.get("token_info")
    if not ctx.ob("R13.1", "anchor:token_info", TOK is not None, detail="storage namespace token_info not found", trivial=True):
        return
    eps = entry_points(ctx.facts, CRATE)
    n_mint, n_role = 0, 0
    for ename, fn in sorted(eps.items()):
        if ename == "instantiate":
            continue
        paths = ctx.summarise(fn)
        groups = dispatch(paths) if ename == "execute" else {None: paths}
        for variant, ps in sorted(groups.items(), key=lambda x: str(x[0])):
            key = "%s/%s" % (ename, variant)
            for p in ps:
                if p.is_err():
                    continue
                for i, e in enumerate(p.effects):
                    if e.kind != "write" or e.item != TOK:
                        continue
                    if e.op == "remove":
                        ctx.ob("R13.3", key + "/remove", False, detail="TOKEN_INFO removed", sites=[e.site])
                        continue
                    base, fields = update_base(e.value)
                    lf = loaded_from(base)
                    if lf is None or lf[0] != TOK or lf[2] != e.ver:
                        ctx.ob("R13.3", key + "/write in %s" % e.site[2], False, sites=[e.site],
                               detail="TOKEN_INFO overwritten with a value not derived from the stored one: %s" % show(e.value)[:200])
                        continue
                    d = cell_delta(e, field="total_supply", path=p)
                    raises = d.nf is None or any(c > 0 for c in d.nf.atoms.values()) or d.nf.const > 0
                    if raises:
                        n_mint += 1
                        some, eq = minter_guard(p, base, i)
                        ctx.ob("R13.1", key + "/mint in %s" % e.site[2], some and eq, sites=[e.site],
                               detail="total_supply raised (%s) without the guard stored-minter == info.sender before the write "
                                      "(mint present: %s, minter == sender: %s)" % (d.nf.show() if d.nf else d.problem, some, eq),
                               sample={"delta": d.nf.show() if d.nf else None, "guard": "mint.is_some && mint.minter == info.sender"})
                        saved = fields.get("total_supply")
                        okc, how = cap_guard(p, base, saved, i)
                        ctx.ob("R13.2", key + "/cap in %s" % e.site[2], okc, sites=[e.site],
                               detail="supply saved as %s without the guard (stored cap < saved total) = false" % show(saved)[:200],
                               sample={"saved_total": show(saved)[:200], "how": how})
                    if "mint" in fields:
                        n_role += 1
                        some, eq = minter_guard(p, base, i)
                        newv = fields["mint"]
                        form = False
                        if newv == ("variant", OPTION, "None", ()):
                            form = True
                        elif newv[0] == "variant" and newv[2] == "Some":
                            md = newv[3][0][1]
                            if md[0] == "struct":
                                f = dict(md[2])
                                capok = f.get("cap") == ("field", ("vfield", ("field", base, "mint"), "Some", "0"), "cap")
                                m = f.get("minter")
                                minterok = (m[0] == "vfield" and m[2] == "Ok" and m[1][0] == "call" and m[1][1].endswith("addr_validate"))
                                form = capok and minterok
                        ctx.ob("R13.3", key + "/role write in %s" % e.site[2], some and eq and form, sites=[e.site],
                               detail="TokenInfo.mint changed without the current-minter guard or to a value other than None / "
                                      "MinterData{validated address, stored cap}: %s (guard: present=%s eq=%s)" % (show(newv)[:200], some, eq),
                               sample={"new_mint": show(newv)[:200]})
                    other = set(fields) - {"total_supply", "mint"}
                    if other:
                        ctx.ob("R13.3", key + "/other fields in %s" % e.site[2], True, trivial=True)
    # instantiate
    ips = ctx.summarise(eps["instantiate"])
    n_inst = 0
    for p in ips:
        if p.is_err():
            continue
        for i, e in enumerate(p.effects):
            if e.kind == "write" and e.item == TOK:
                n_inst += 1
                ts = field_of(e.value, "total_supply")
                mint = field_of(e.value, "mint")
                # cap given?  the path decided msg.mint Some and its cap Some
                capterm = None
                for lo, hi, strict, c in order_facts(p.conds, before=i):
                    if lo == ts and not strict:          # total <= cap, however the test was spelled
                        capterm = hi
                if mint[0] == "variant" and mint[2] == "Some":
                    md = mint[3][0][1]
                    cap = dict(md[2]).get("cap") if md[0] == "struct" else None
                    capnone = any(c[0] == cap and c[1] == "None" for c in p.conds)
                    good = capnone or (capterm is not None and capterm == ("vfield", cap, "Some", "0"))
                    ctx.ob("R13.4", "instantiate/cap", good, sites=[e.site],
                           detail="instantiate stores cap %s with total_supply %s without the guard (cap < total) = false" % (show(cap)[:120], show(ts)[:120]),
                           sample={"cap": show(cap)[:120], "total": show(ts)[:120]})
                else:
                    ctx.ob("R13.4", "instantiate/no-minter", True, trivial=True)
    from . import C01
    sub = type(ctx)(ctx.pid, ctx.facts, ctx.engine, ctx.tier, ctx.tree_hash)
    C01.run(sub)
    for k in sub.order:
        o = sub.obs[k]
        if o.rule in ("R01.1", "R01.2", "R01.3", "R01.4") and not o.key.startswith(("anchor", "floor")):
            ctx.ob("R13.5", o.rule + " " + o.key, True if o.status == "discharged" else (None if o.status == "undecided" else False),
                   detail="; ".join(o.details), sites=o.sites, sample=o.sample)
    ctx.floor("R13.1", "supply-raising writes outside instantiate", n_mint, 1)
    ctx.floor("R13.3", "writes of TokenInfo.mint outside instantiate", n_role, 2)
    ctx.floor("R13.4", "instantiate TOKEN_INFO saves", n_inst, 1)
