"""C16 - cw1: CanExecute predicts Execute (sibling agreement of two separately written code paths)."""
from ..engine import show
from ..idioms import dispatch, entry_points, loaded_from, walk
from .cw1common import SENDER, items, match_is_admin, admin_decisions

ID = "C16"
RULES = {
    "R16.1": "cw1-whitelist: the condition under which Execute relays and the boolean returned by CanExecute are the same "
             "term is_admin(stored ADMIN_LIST, sender) under the renaming info.sender <-> query sender",
    "R16.2": "cw1-subkeys: the set of decision sets {(atom, outcome)} of Execute's successful single-message paths equals the "
             "set of decision sets under which CanExecute returns true, after renaming caller, message and stored-entry reads; "
             "admin short-circuits to success on both sides",
}

S = ("SENDER",)
M = ("MESSAGE",)


def rename(t, caller_terms, msg_terms):
    """structural renaming + canonical form of stored reads"""
    if not isinstance(t, tuple):
        return t
    if t in caller_terms:
        return S
    if t in msg_terms:
        return M
    if t and isinstance(t[0], str):
        k = t[0]
        # stored option entry of a map: update's closure argument == may_load(..)?Ok.0
        if k == "oldval":
            return ("STORED", t[1], rename(t[2], caller_terms, msg_terms))
        if k == "vfield" and t[2] == "Ok" and t[1][0] == "may_load":
            return ("STORED", t[1][1], rename(t[1][2], caller_terms, msg_terms))
        if k == "vfield" and t[2] == "Ok" and t[1][0] == "load":
            return ("STOREDV", t[1][1], rename(t[1][2], caller_terms, msg_terms))
    return tuple(rename(x, caller_terms, msg_terms) for x in t)


def atom(c0, c1):
    """normalise one decision"""
    t, o = c0, c1
    while t[0] == "not" and isinstance(o, bool):
        t, o = t[1], (not o)
    if t[0] == "is" and isinstance(o, bool):
        pos = t[2]
        neg = {"Ok": "Err", "Some": "None"}[pos]
        return (t[1], pos if o else neg)
    return (t, o)


def drop_atom(a):
    t, o = a
    # storage reads succeeding / address validation of the query's sender string: not part of the decision
    if t[0] in ("load", "may_load") and o == "Ok":
        return True
    if t[0] == "call" and t[1].endswith("addr_validate") and o == "Ok":
        return True
    if t[0] == "calli" and t[1] == "next":
        return True
    if t[0] == "call" and t[1].split("::")[-1] in ("to_json_binary", "to_json_vec", "to_json_string") and o == "Ok":
        return True     # serialising the answer succeeded: not part of the decision
    if t == ("param", "msg"):
        return True
    return False


def run(ctx):
    ctx.rule_texts.update(RULES)
    ctx.assumptions += ["A-PRIMS", "the sender string given to the query is a valid address (the statement quantifies over valid ones)",
                        "Execute is called with a single message"]
    ctx.not_decided += ["sender strings that are not valid addresses"]
    ADMIN, ALW, PERM = items(ctx)
    if not ctx.ob("R16.1", "anchor:storage namespaces", None not in (ADMIN, ALW, PERM), trivial=True,
                  detail="namespaces not found"):
        return
    for crate, rule in (("cw1_whitelist", "R16.1"), ("cw1_subkeys", "R16.2")):
        eps = entry_points(ctx.facts, crate)
        ex = dispatch(ctx.summarise(eps["execute"])).get("Execute", [])
        qs = dispatch(ctx.summarise(eps["query"])).get("CanExecute", [])
        qsender = ("vfield", ("param", "msg"), "CanExecute", "sender")
        qmsg = ("vfield", ("param", "msg"), "CanExecute", "msg")
        # ---- execute side: Ok paths with zero (admin) or exactly one iteration
        ex_sets = set()
        n_ex = 0
        for p in ex:
            if p.is_err():
                continue
            adm = admin_decisions(ctx, p, ADMIN)
            adm_idx = set(i for d in adm for i in d[3])
            elems = set()
            for i, c in enumerate(p.conds):
                if i not in adm_idx and c[0][0] == "calli" and c[0][1] == "next" and c[1] == "Some":
                    elems.add(("vfield", c[0], "Some", "0"))
            iters = len(elems)
            msgs = ("vfield", ("param", "msg"), "Execute", "msgs")
            has_loop = any(e.kind == "loop_enter" and any(y == msgs for v in e.value.values() for y in walk(v)) for e in p.effects)
            if has_loop and iters == 0:
                continue  # empty message list: not a single-message call
            n_ex += 1
            atoms = set()
            for i, c in enumerate(p.conds):
                if i in adm_idx:
                    continue
                a = atom(c[0], c[1])
                if drop_atom(a):
                    continue
                atoms.add((rename(a[0], {SENDER}, elems), a[1]))
            for who, pol, lst, _ in adm:
                atoms.add((("IS_ADMIN", rename(lst, {SENDER}, elems), rename(who, {SENDER}, elems) if who is not None else S), pol))
            ex_sets.add(frozenset(atoms))
        # ---- query side: paths returning true
        q_sets = set()
        n_q = 0
        for p in qs:
            if p.is_err():
                continue
            r = p.ret
            # to_json_binary(CanExecuteResponse{can_execute: B})
            B = None
            for x in walk(r):
                if x[0] == "struct" and x[1].endswith("CanExecuteResponse"):
                    B = dict(x[2]).get("can_execute")
            if B is None:
                ctx.ob(rule, crate + "/query shape", None, detail="UNDECIDED: CanExecute does not return CanExecuteResponse{can_execute}: %s" % show(r)[:200])
                continue
            n_q += 1
            callers = {qsender, ("vfield", ("call", "cosmwasm_std::Api::addr_validate", (("field", ("param", "deps"), "api"), qsender)), "Ok", "0")}
            adm = admin_decisions(ctx, p, ADMIN)
            adm_idx = set(i for d in adm for i in d[3])
            atoms = set()
            for i, c in enumerate(p.conds):
                if i in adm_idx:
                    continue
                a = atom(c[0], c[1])
                if drop_atom(a):
                    continue
                atoms.add((rename(a[0], callers, {qmsg}), a[1]))
            for who, pol, lst, _ in adm:
                atoms.add((("IS_ADMIN", rename(lst, callers, {qmsg}), rename(who, callers, {qmsg}) if who is not None else S), pol))
            if B == ("lit", False):
                continue
            if B != ("lit", True):
                a = atom(B, True)
                m = match_is_admin(ctx, a[0])
                if m is not None and isinstance(a[1], bool):
                    atoms.add((("IS_ADMIN", rename(m[0], callers, {qmsg}), rename(m[1], callers, {qmsg})), a[1]))
                else:
                    atoms.add((rename(a[0], callers, {qmsg}), a[1]))
            q_sets.add(frozenset(atoms))
        only_ex = ex_sets - q_sets
        only_q = q_sets - ex_sets
        ctx.floor(rule, "%s Execute success paths" % crate, n_ex, 1 if crate == "cw1_whitelist" else 7)
        ctx.floor(rule, "%s CanExecute paths" % crate, n_q, 1 if crate == "cw1_whitelist" else 7)
        def fmt(fs):
            return sorted("%s => %s" % (show(t)[:140], o) for t, o in fs)
        for fs in sorted(only_ex, key=lambda f: sorted(map(repr, f))):
            ctx.ob(rule, crate + "/Execute succeeds where CanExecute does not answer true", False,
                   detail="decisions: %s" % fmt(fs))
        for fs in sorted(only_q, key=lambda f: sorted(map(repr, f))):
            ctx.ob(rule, crate + "/CanExecute answers true where Execute does not succeed", False,
                   detail="decisions: %s" % fmt(fs))
        for fs in sorted(ex_sets & q_sets, key=lambda f: sorted(map(repr, f))):
            kinds = sorted(str(o) for t, o in fs if t == M or (t[0] == "vfield" and t[1] == M))
            ctx.ob(rule, crate + "/agree:" + ",".join(kinds or ["admin"]), True, sample={"decisions": fmt(fs)})
