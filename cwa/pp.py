"""Readable dump of exported MIR bodies (debugging aid only)."""
import json, sys

def place(p):
    s = "_%d" % p["l"]
    for e in p["p"]:
        if e == "*":
            s = "(*%s)" % s
        elif isinstance(e, str):
            s = "%s<%s>" % (s, e)
        elif "f" in e:
            s = "%s.%s" % (s, e["n"])
        elif "d" in e:
            s = "(%s as %s)" % (s, e["d"])
        elif "i" in e:
            s = "%s[_%d]" % (s, e["i"])
        elif "ci" in e:
            s = "%s[%s%d]" % (s, "-" if e["from_end"] else "", e["ci"])
        else:
            s = "%s{%s}" % (s, e)
    return s

def operand(o):
    if "c" in o:
        return place(o["c"])
    if "m" in o:
        return "move " + place(o["m"])
    k = o["k"]
    if k == "fn":
        return "fn(%s)" % o["inst"]
    if k == "const":
        return "const(%s)" % o["path"]
    if k == "promoted":
        return "promoted(%s)" % o["path"]
    if k == "int":
        return "%s_%s" % (o["v"], o["ty"])
    if k == "str":
        return json.dumps(o["v"])
    if k == "zst":
        return "zst(%s)" % (o.get("closure") or o["ty"])
    return "other(%s)" % o.get("d")

def rvalue(r):
    k = r["r"]
    if k == "use":
        return operand(r["o"])
    if k == "ref":
        return ("&mut " if r["mut"] else "&") + place(r["p"])
    if k == "cast":
        return "%s as %s [%s]" % (operand(r["o"]), r["to"], r["kind"])
    if k == "bin":
        return "%s(%s, %s)" % (r["op"], operand(r["a"]), operand(r["b"]))
    if k == "un":
        return "%s(%s)" % (r["op"], operand(r["o"]))
    if k == "discr":
        return "discriminant(%s)" % place(r["p"])
    if k == "agg":
        ops = ", ".join(operand(o) for o in r["ops"])
        ak = r["ak"]
        if ak == "adt":
            fs = ", ".join("%s: %s" % (f, operand(o)) for f, o in zip(r["fields"], r["ops"]))
            return "%s::%s{%s}" % (r["adt"], r["variant"], fs)
        if ak == "closure":
            return "closure(%s)[%s]" % (r["closure"], ops)
        return "%s[%s]" % (ak, ops)
    return json.dumps(r)

def dump(b, out=sys.stdout):
    out.write("%s %s  (%s:%d) argc=%d\n" % (b["kind"], b["path"], b["file"], b["line"], b["argc"]))
    for i, l in enumerate(b["locals"]):
        out.write("  let _%d: %s%s\n" % (i, l["ty"], ("  // " + l["name"]) if "name" in l else ""))
    for i, bb in enumerate(b["blocks"]):
        if bb["cleanup"]:
            continue
        out.write(" bb%d:\n" % i)
        for s in bb["stmts"]:
            if s["s"] == "assign":
                out.write("    %s = %s   // L%d\n" % (place(s["p"]), rvalue(s["rv"]), s["line"]))
            elif s["s"] == "setdiscr":
                out.write("    discriminant(%s) = %s\n" % (place(s["p"]), s["variant"]))
            else:
                out.write("    %s\n" % s["s"])
        t = bb["term"]
        k = t["t"]
        if k == "call":
            callee = t.get("callee_inst") or ("indirect " + operand(t["callee_op"]))
            out.write("    %s = %s(%s) -> %s   // L%d res=%s %s\n" % (
                place(t["dest"]), callee, ", ".join(operand(a) for a in t["args"]), t["target"], t["line"],
                t.get("res_kind"), t.get("resolved", "")))
        elif k == "switch":
            out.write("    switch(%s: %s) %s else %s\n" % (operand(t["o"]), t["ty"], t["arms"], t["otherwise"]))
        elif k == "goto":
            out.write("    goto %d\n" % t["target"])
        elif k == "drop":
            out.write("    drop(%s) -> %d\n" % (place(t["p"]), t["target"]))
        elif k == "assert":
            out.write("    assert(%s == %s) -> %d  // %s\n" % (operand(t["o"]), t["expected"], t["target"], t["msg"]))
        else:
            out.write("    %s\n" % k)

if __name__ == "__main__":
    d = json.load(open(sys.argv[1]))
    for b in d["bodies"]:
        if len(sys.argv) < 3 or any(a in b["path"] for a in sys.argv[2:]):
            dump(b)
            print()
