"""Functions the rules know by name.  When one of them is not found under its usual module path (a function moved to
another module of the same crate), the unique function of that crate with the same trailing name is re-anchored to the
usual path, so that rules, opaque sets and call terms keep one spelling.  Renames are not followed: fail closed."""

ANCHORS = [
    "cw3::proposal::Proposal::current_status",
    "cw3::proposal::Proposal::is_passed",
    "cw3::proposal::Proposal::is_rejected",
    "cw3::proposal::Proposal::update_status",
    "cw3::proposal::votes_needed",
    "cw3::proposal::Votes::total",
    "cw3::proposal::Votes::add_vote",
    "cw3::deposit::DepositInfo::check_native_deposit_paid",
    "cw3_flex_multisig::state::Config::authorize",
    "cw4_group::helpers::validate_unique_members",
    "cw4::query::member_key",
    "cw4::helpers::Cw4Contract::is_member",
    "cw4::helpers::Cw4Contract::is_voting_member",
    "cw4::helpers::Cw4Contract::member_at_height",
    "cw4::helpers::Cw4Contract::total_weight",
    "cw4::helpers::Cw4Contract::list_members",
    "cw4::helpers::Cw4Contract::admin",
    "cw4::helpers::Cw4Contract::hooks",
    "cw20_ics20::migrations::v2::update_balances",
    "cw1_whitelist::state::AdminList::is_admin",
    "cw1_whitelist::state::AdminList::can_modify",
]


def _tail(path):
    parts = path.split("::")
    n = 2 if len(parts) >= 2 and parts[-2][:1].isupper() else 1
    return parts[0], tuple(parts[-n:])


def reanchor(facts):
    """returns [(usual path, actual path)] for the anchors that were found elsewhere"""
    moved = []
    for a in ANCHORS:
        if a in facts.bodies:
            continue
        crate, tail = _tail(a)
        # an inherent impl block written in another module prints as `crate::module::<impl crate::home::Type>::name`
        def parts(p):
            return p.replace("<impl ", "").replace(">::", "::").split("::")
        cands = [b for p, b in facts.bodies.items() if b.kind == "fn" and p.split("::")[0] == crate
                 and tuple(parts(p)[-len(tail):]) == tail]
        # a method keeps its type: `{impl#0}::name` paths print as Type::name already
        if len(cands) != 1:
            continue
        b = cands[0]
        old = b.path
        for p2, b2 in list(facts.bodies.items()):
            if p2 == old or p2.startswith(old + "::"):
                b2.path = a + p2[len(old):]
                facts.bodies[b2.path] = b2
        moved.append((a, old))
    return moved
