"""Thorough tier: (a) fresh extraction (done by ./check), (b) writer sweep over every entry point of every contract with
lifted limits, (c) build-coverage scan for cfg-gated code, (d) liveness run: every breaking patch of the corpus that still
applies must be detected on a scratch copy, every benign patch must stay silent."""
import fcntl
import glob
import json
import os
import re
import shutil
import subprocess
import sys
import tempfile

from .idioms import entry_points, storage_items, dispatch
from .engine import show

VERIF = os.path.dirname(os.path.dirname(os.path.abspath(__file__)))
CONTRACTS = ["cw1_subkeys", "cw1_whitelist", "cw20_base", "cw20_ics20", "cw3_fixed_multisig", "cw3_flex_multisig", "cw4_group", "cw4_stake"]

TRACKED = {
    "C01": [("cw20_base", "balance"), ("cw20_base", "token_info")],
    "C02": [("cw20_base", "balance"), ("cw20_base", "allowance")],
    "C03": [("cw3_fixed_multisig", "proposals"), ("cw3_fixed_multisig", "votes")],
    "C04": [],
    "C05": [("cw3_fixed_multisig", "proposals"), ("cw3_fixed_multisig", "proposal_count")],
    "C06": [("cw3_fixed_multisig", "votes"), ("cw3_fixed_multisig", "voters"), ("cw3_fixed_multisig", "config")],
    "C07": [("cw1_subkeys", "allowances"), ("cw1_subkeys", "permissions")],
    "C08": [("cw1_subkeys", "allowances"), ("cw1_subkeys", "permissions")],
    "C09": [("cw4_group", "members"), ("cw4_group", "total"), ("cw4_stake", "members"), ("cw4_stake", "total")],
    "C10": [("cw4_stake", "stake"), ("cw4_stake", "members")],
    "C11": [("cw20_ics20", "channel_state"), ("cw20_ics20", "reply_args")],
    "C12": [("cw20_ics20", "channel_state"), ("cw20_ics20", "reply_args")],
    "C13": [("cw20_base", "token_info")],
    "C14": [("cw4_group", "members"), ("cw4_group", "total"), ("cw4_stake", "members")],
    "C15": [("cw3_fixed_multisig", "proposals")],
    "C16": [],
    "C17": [("cw1_whitelist", "admin_list"), ("cw1_subkeys", "allowances"), ("cw1_subkeys", "permissions")],
    "C18": [("cw20_ics20", "allow_list"), ("cw20_ics20", "ics20_config")],
    "C19": [("cw20_base", "allowance"), ("cw20_base", "allowance_spender")],
    "C20": [],
}
# properties whose rules deliberately leave an entry point's writes undecided (stated in their not_decided list)
SWEEP_EXEMPT = {("C11", "cw20_ics20", "migrate"), ("C12", "cw20_ics20", "migrate")}
# properties that are about one contract only although the tracked item is shared with another one
SWEEP_CRATES = {"C15": ["cw3_flex_multisig"]}

CFG_ALLOWED = [
    r'#\[cfg\(test\)\]', r'#\[cfg_attr\(not\(feature = "library"\), entry_point\)\]',
    r'#\[cfg\(not\(feature = "library"\)\)\]\s*\n\s*use cosmwasm_std::entry_point;',
    r'#\[cfg\(any\(test, feature = "test-utils"\)\)\]', r'#\[cfg_attr\(test, derive\(Default\)\)\]', r'#!\[cfg\(test\)\]',
]


def writer_sweep(ctx):
    eng = ctx.engine
    items = {}
    for crate, ns in TRACKED.get(ctx.pid, []):
        it = storage_items(eng, crate).get(ns)
        if it is not None:
            items[it] = "%s:%s" % (crate, ns)
    if not items:
        return
    traversed = set(eng.stat_bodies)           # bodies the quick rules walked through
    writers = []
    from .rules.cw3common import CS
    for crate in SWEEP_CRATES.get(ctx.pid, CONTRACTS):
        for ename, fn in sorted(entry_points(ctx.facts, crate).items()):
            try:
                paths = eng.summarise(fn, opaque={CS})
            except Exception as e:      # PathCap
                ctx.ob("T.sweep", "%s::%s" % (crate, ename), None, detail="UNDECIDED: %s" % e)
                continue
            groups = dispatch(paths) if ename in ("execute", "query") else {None: paths}
            for variant, ps in groups.items():
                for p in ps:
                    if p.is_err():
                        continue
                    for e in p.effects:
                        if e.kind == "write" and e.item in items:
                            writers.append((crate, ename, str(variant), items[e.item], e.op, e.site[2], e.site[1]))
                            if (ctx.pid, crate, ename) in SWEEP_EXEMPT:
                                continue
                            ctx.ob("T.sweep", "writer of %s in %s::%s/%s via %s" % (items[e.item], crate, ename, variant, e.site[2]),
                                   e.site[2] in traversed, sites=[e.site],
                                   detail="a write to %s exists in %s::%s (%s) that this property's rules never traversed" % (items[e.item], crate, ename, e.site[2]),
                                   sample={"op": e.op})
    ctx.counts["T.sweep:writer tuples"] = len(set(writers))
    ctx.rule_texts["T.sweep"] = ("thorough: every write to an item this property tracks, found by summarising every ABI entry point of "
                                 "every contract with lifted limits, lies in a function the property's rules traversed")
    ctx.cache["writers"] = sorted(set(writers))


def cfg_scan(ctx):
    from .extract import REPO
    bad = []
    n = 0
    for root in ("contracts", "packages"):
        for f in glob.glob(os.path.join(REPO, root, "*", "src", "**", "*.rs"), recursive=True):
            txt = open(f).read()
            # ignore everything inside #[cfg(test)] mod … { … } at the end of files: cut at the first `#[cfg(test)]\nmod`
            m = re.search(r"#\[cfg\(test\)\]\s*\n\s*(pub )?mod \w+ \{", txt)
            body = txt[:m.start()] if m else txt
            for mm in re.finditer(r"#!?\[cfg(_attr)?\(.*?\)\]", body, re.S):
                n += 1
                ctxt = body[mm.start():mm.start() + 160]
                if not any(re.match(pat, ctxt) for pat in CFG_ALLOWED):
                    bad.append("%s: %s" % (os.path.relpath(f, REPO), mm.group(0)[:80]))
    ctx.rule_texts["T.cfg"] = ("thorough: the facts are extracted for one cfg (host target, workspace feature unification); no item outside test "
                               "code may be cfg-gated except the wasm entry_point glue and test utilities, otherwise some code would escape analysis")
    ctx.ob("T.cfg", "cfg-gated non-test items", not bad, detail="cfg-gated code not covered by the analysed configuration: %s" % bad[:6],
           sample={"cfg_attributes_seen": n}, trivial=True)


def _scratch():
    base = os.path.join(os.environ.get("TMPDIR", "/tmp"), "cw-verif-scratch")
    os.makedirs(base, exist_ok=True)
    return base


def liveness(ctx):
    """apply each corpus patch to a scratch copy (one fixed path, serialised by a lock so that cargo artefacts are reused
    and overwritten, removed afterwards) and run the quick check of this property on it"""
    from .extract import REPO
    pid = ctx.pid
    breaking = sorted(glob.glob(os.path.join(VERIF, "mutants", pid, "*.patch")))
    for d in sorted(glob.glob(os.path.join(VERIF, "seeded", pid + "*"))):
        meta = os.path.join(d, "meta.json")
        if os.path.exists(meta) and json.load(open(meta)).get("expected_detected"):
            breaking.append(os.path.join(d, "patch.diff"))
    benign = sorted(glob.glob(os.path.join(VERIF, "mutants", "benign", "*.patch")))
    # behaviour-preserving refactorings written by independent agents: those touching a package or a contract this
    # property's rules read
    from .scope import CRATES_OF
    mine = set(CRATES_OF.get(pid, []))
    residual = set(json.load(open(os.path.join(VERIF, "refactors", "residual.json")))["residual"]) \
        if os.path.exists(os.path.join(VERIF, "refactors", "residual.json")) else set()
    for pf in sorted(glob.glob(os.path.join(VERIF, "refactors", "*.patch"))):
        if os.path.basename(pf)[:-6] in residual:
            continue        # documented residual false alarms (DESIGN.md section 17): re-implementations of trusted primitives
        touched = set(re.findall(r"^\+\+\+ b/(contracts|packages)/([^/]+)/", open(pf).read(), re.M))
        if any(k == "packages" for k, _ in touched) or any(n.replace("-", "_") in mine for _, n in touched):
            benign.append(pf)
    ctx.rule_texts["T.live"] = ("thorough: every breaking patch of the corpus (mutants/%s, seeded/%s* marked expected_detected) that still "
                                "applies to the current tree must raise a VIOLATION of this property on a scratch copy; every benign patch "
                                "must leave the verdict unchanged" % (pid, pid))
    base = _scratch()
    lock = open(os.path.join(base, "lock"), "w")
    fcntl.flock(lock, fcntl.LOCK_EX)
    repo = os.path.join(base, "repo")
    n_run = n_skip = 0
    try:
        for kind, patches in (("breaking", breaking), ("benign", benign)):
            for pf in patches:
                name = os.path.relpath(pf, VERIF)
                if os.path.isdir(repo):
                    shutil.rmtree(repo)
                subprocess.check_call(["rsync", "-a", "--exclude", "target", "--exclude", ".git", REPO + "/", repo + "/"])
                a = subprocess.run("patch -p1 -s --dry-run < %s && patch -p1 -s < %s" % (pf, pf), cwd=repo, shell=True,
                                   stdout=subprocess.PIPE, stderr=subprocess.STDOUT, text=True)
                if a.returncode != 0:
                    n_skip += 1
                    ctx.ob("T.live", "skipped (no longer applies): " + name, True, trivial=True)
                    continue
                ev = os.path.join(base, "ev")
                os.makedirs(ev, exist_ok=True)
                env = dict(os.environ, CW_REPO=repo, CW_EVIDENCE_DIR=ev, VERIF_TIER="quick")
                r = subprocess.run([os.path.join(VERIF, "check"), pid, "--tier", "quick"], cwd=VERIF, env=env,
                                   stdout=subprocess.PIPE, stderr=subprocess.STDOUT, text=True)
                fired = ("VIOLATION property=%s" % pid) in r.stdout
                n_run += 1
                if r.returncode == 2:
                    ctx.ob("T.live", "not compiling / machinery error: " + name, kind == "benign" and False or True, trivial=True,
                           detail="patch does not compile on the current tree")
                    n_skip += 1
                    continue
                if kind == "breaking":
                    rules = sorted(set(re.findall(r"^--- %s (\S+) \[" % pid, r.stdout, re.M)))
                    ctx.ob("T.live", "detects " + name, fired, detail="breaking patch %s is NOT detected any more (the checker has gone blind)" % name,
                           sample={"rules_fired": rules})
                else:
                    ctx.ob("T.live", "silent on " + name, not fired, detail="benign patch %s raises an alarm: %s" % (name, r.stdout[-400:]),
                           sample={"exit": r.returncode})
    finally:
        shutil.rmtree(repo, ignore_errors=True)
        shutil.rmtree(os.path.join(base, "ev"), ignore_errors=True)
        fcntl.flock(lock, fcntl.LOCK_UN)
        lock.close()
    ctx.counts["T.live:patches run"] = n_run
    ctx.counts["T.live:patches skipped"] = n_skip


def run(ctx):
    writer_sweep(ctx)
    cfg_scan(ctx)
    if os.environ.get("CW_NO_LIVENESS") != "1":
        liveness(ctx)
