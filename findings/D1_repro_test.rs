            passes_early.clone(),
            15,
            false
        ));
        assert!(check_is_passed(quorum, passes_early, 15, true));
    }
}

#[cfg(test)]
mod d1_repro {
    use super::*;
    use cosmwasm_std::testing::mock_env;

    #[test]
    fn all_abstain_passes_with_zero_yes() {
        let env = mock_env();
        let prop = Proposal {
            title: "t".into(),
            description: "d".into(),
            start_height: 1,
            expires: Expiration::AtHeight(env.block.height + 100),
            msgs: vec![],
            status: Status::Open,
            threshold: Threshold::AbsolutePercentage { percentage: Decimal::percent(51) },
            total_weight: 10,
            votes: Votes { yes: 0, no: 0, abstain: 10, veto: 0 },
            proposer: Addr::unchecked("p"),
            deposit: None,
        };
        assert!(!prop.is_passed(&env.block), "zero Yes weight must not pass");
    }
}
