import sys, time
import os; sys.path.insert(0, os.path.dirname(os.path.dirname(os.path.abspath(__file__))))
from cwa.facts import Facts
from cwa.engine import Engine, show
from cwa.extract import ensure_facts
from cwa.idioms import dispatch
F=Facts(ensure_facts()[0])
fn=sys.argv[1]; variant=sys.argv[2]; opaque=sys.argv[3].split(',') if len(sys.argv)>3 else []
E=Engine(F, opaque=opaque)
ps=E.summarise(fn)
g=dispatch(ps)
print({k:len(v) for k,v in g.items()})
for i,p in enumerate(g.get(variant if variant!='None' else None,[])):
    if '--ok' in sys.argv and p.is_err(): continue
    print("== path", i, "OK" if p.is_ok() else ("ERR" if p.is_err() else "?"))
    for c in p.conds: print("   cond", show(c[0])[:300], "=>", c[1], "@", c[2][1] if c[2] else "", "#%d"%c[3])
    for e in p.effects:
        print("   eff ", repr(e)[:600])
        if e.kind in ("loop_enter","loop_step"):
            for k,v in e.value.items(): print("        ", k, "=", show(v)[:400])
    print("   ret ", show(p.ret)[:600])
