#!/bin/bash
# tools/try.sh <patch-file> [check args...] : scratch copy of /repo + the patch under /tmp/try/<basename>, then ./check against it (development aid)
set -e
V=$(cd "$(dirname "$0")/.." && pwd)
pf=$(readlink -f $1); shift
n=$(basename $pf | sed 's/\.patch$//; s/\.diff$//')
d=/tmp/try/$n
if [ ! -d $d ]; then
  mkdir -p $d
  rsync -a --exclude target --exclude .git /repo/ $d/
  (cd $d && patch -p1 -s < $pf)
fi
CW_REPO=$d CW_EVIDENCE_DIR=/tmp/try/ev CW_CACHE=/tmp/try/cache $V/check "${@:---all}"
