#!/usr/bin/env python3
"""Re-run ./check --all against every kept seed (scratch copy + patch.diff) and record the current verdicts in meta.json
(keeps the verdicts of the first evaluation under `first_evaluation`).  Also prints the catch matrix."""
import glob, json, os, re, shutil, subprocess, sys, tempfile
V = os.path.dirname(os.path.dirname(os.path.abspath(__file__)))
only = sys.argv[1:] 
rows = []
d = tempfile.mkdtemp(prefix="cwseedre.")
try:
    for sd in sorted(glob.glob(os.path.join(V, "seeded", "C*"))):
        name = os.path.basename(sd)
        if only and name not in only:
            continue
        meta = json.load(open(os.path.join(sd, "meta.json")))
        repo = os.path.join(d, "repo")
        shutil.rmtree(repo, ignore_errors=True)
        subprocess.check_call(["rsync", "-a", "--exclude", "target", "--exclude", ".git", "/repo/", repo + "/"])
        a = subprocess.run("patch -p1 -s < %s" % os.path.join(sd, "patch.diff"), cwd=repo, shell=True)
        if a.returncode != 0:
            print(name, "patch no longer applies"); continue
        ev = os.path.join(d, "ev"); os.makedirs(ev, exist_ok=True)
        r = subprocess.run([os.path.join(V, "check"), "--all"], cwd=V, env=dict(os.environ, CW_REPO=repo, CW_EVIDENCE_DIR=ev),
                           stdout=subprocess.PIPE, stderr=subprocess.STDOUT, text=True)
        fired = sorted(set(re.findall(r"^VIOLATION property=(C\d+)", r.stdout, re.M)))
        rules = sorted(set(re.findall(r"^--- (C\d+ \S+) \[", r.stdout, re.M)))
        if "first_evaluation" not in meta:
            meta["first_evaluation"] = {"checks_fired": meta.get("checks_fired"), "rules_fired": meta.get("rules_fired"),
                                        "detected_by_own_property": meta.get("detected_by_own_property")}
        meta["checks_fired"] = fired
        meta["rules_fired"] = rules
        meta["detected_by_own_property"] = meta["property"] in fired
        meta["expected_detected"] = meta["property"] in fired
        meta["diagnostics"] = [l for l in r.stdout.splitlines() if l.startswith(("--- ", "    ")) and not l.startswith("    rule:")][:14]
        json.dump(meta, open(os.path.join(sd, "meta.json"), "w"), indent=1)
        rows.append((name, meta["first_evaluation"]["rules_fired"], rules))
        print(name, "first:", meta["first_evaluation"]["checks_fired"], "now:", fired, rules, flush=True)
finally:
    shutil.rmtree(d, ignore_errors=True)
