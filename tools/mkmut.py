#!/usr/bin/env python3
"""tools/mkmut.py <ID> <name> <repo-relative file> <old> <new> [count]  -> mutants/<ID>/<name>.patch
Creates a unified diff replacing the first (or count-th) occurrence of <old> by <new>."""
import difflib, os, sys
pid, name, rel, old, new = sys.argv[1:6]
nth = int(sys.argv[6]) if len(sys.argv) > 6 else 1
src = open(os.path.join("/repo", rel)).read()
idx = -1
for _ in range(nth):
    idx = src.find(old, idx + 1)
    if idx < 0:
        sys.exit("pattern not found: %r" % old)
dst = src[:idx] + new + src[idx + len(old):]
d = "".join(difflib.unified_diff(src.splitlines(True), dst.splitlines(True), "a/" + rel, "b/" + rel))
V = os.path.dirname(os.path.dirname(os.path.abspath(__file__)))
os.makedirs(os.path.join(V, "mutants", pid), exist_ok=True)
out = os.path.join(V, "mutants", pid, name + ".patch")
open(out, "w").write(d)
print(out)
