#!/usr/bin/env python3
"""regenerates MANIFEST.json from cwa/rules/*.py (claimed) and tools/manifest_meta.json"""
import json, os, sys
V = os.path.dirname(os.path.dirname(os.path.abspath(__file__)))
sys.path.insert(0, V)
meta = json.load(open(os.path.join(V, "tools", "manifest_meta.json")))
ids = ["C%02d" % i for i in range(1, 21)]
checks, na = [], []
for pid in ids:
    m = dict(meta["properties"].get(pid, {}))
    evf = os.path.join(V, "evidence", pid + ".json")
    if os.path.exists(evf):
        ev = json.load(open(evf))["coverage"]
        rules = sorted(k for k in ev.get("rules", {}) if k.startswith("R"))
        nd = ev.get("not_decided", [])
        m.setdefault("level_text", meta["default_level_text"] + "; rules decided: " + ", ".join(rules))
        m.setdefault("level_note", meta["default_level_note"] + ("; NOT decided for this property: " + "; ".join(nd) if nd else ""))
    if os.path.exists(os.path.join(V, "cwa", "rules", pid + ".py")) and not m.get("not_applicable"):
        checks.append({
            "property_id": pid,
            "quick_cmd": "./check %s" % pid,
            "thorough_cmd": "./check %s --tier thorough" % pid,
            "evidence_file": "evidence/%s.json" % pid,
            "replay_cmd_template": "./check --replay {path}",
            "engine": "cwa",
            "level_claimed": {"category": "other", "text": m.get("level_text", meta["default_level_text"]),
                              "design_ref": "DESIGN.md section 6 (%s)" % pid},
            "level_note": m.get("level_note", meta["default_level_note"]),
            "technique": m.get("technique", meta["default_technique"]),
        })
    else:
        na.append({"property_id": pid, "reason": m.get("na_reason", "rule module not yet written in this revision (static check under construction)")})
man = {
    "version": 1,
    "setup_cmd": "cd driver && cargo build --offline && cd .. && python3 -m cwa.extract",
    "hooks": {"guard": "cosmwasm_cw_plus_verif",
              "enable": "none needed: the checks are static (MIR facts exported by a rustc_private driver); no instrumentation is compiled into /repo",
              "baseline_off_cmd": "cd /repo && cargo test --workspace --no-fail-fast --offline",
              "source_commits": [], "add_only": True},
    "engines": [{"name": "cwa", "path": "cwa/ + driver/", "serves_properties": [c["property_id"] for c in checks],
                 "kind_free_text": "static analysis: nightly rustc_private MIR facts exporter + stdlib-Python path-sensitive effect/term analysis with per-property relational rules"}],
    "checks": checks,
    "not_applicable": na,
    "notes": meta.get("notes", ""),
}
json.dump(man, open(os.path.join(V, "MANIFEST.json"), "w"), indent=1)
print("claimed:", [c["property_id"] for c in checks], "n/a:", [n["property_id"] for n in na])
