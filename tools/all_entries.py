import time
from cwa.facts import Facts
from cwa.engine import Engine, show
from cwa.extract import ensure_facts
F=Facts(ensure_facts()[0])
E=Engine(F)
ABI=("instantiate","execute","query","migrate","reply","sudo","ibc_channel_open","ibc_channel_connect","ibc_channel_close","ibc_packet_receive","ibc_packet_ack","ibc_packet_timeout")
tot=0
for b in sorted(F.bodies.values(), key=lambda b:b.path):
    if b.kind=="fn" and b.path.split("::")[-1] in ABI and b.path.split("::")[1] in ("contract","ibc"):
        t0=time.time()
        try:
            ps=E.summarise(b.path)
        except Exception as e:
            import traceback; traceback.print_exc()
            print("FAIL",b.path,e); continue
        nok=sum(1 for p in ps if p.is_ok())
        notes=sum(len(p.notes) for p in ps)
        unk=0
        print("%-55s paths=%5d ok=%4d notes=%d  %.2fs"%(b.path,len(ps),nok,notes,time.time()-t0))
        tot+=len(ps)
print("total",tot)
print("unmodelled:")
for k,v in sorted(E.unmodelled.items(), key=lambda x:-x[1]): print("  ",v,k)
from collections import Counter
c=Counter()
for fn in ["cw1_subkeys::contract::execute","cw20_base::contract::instantiate","cw4_group::contract::execute","cw1_subkeys::contract::query","cw1_whitelist::contract::execute"]:
    for p in E.summarise(fn):
        for n in p.notes: c[(fn,)+tuple(n)]+=1
for k,v in c.items(): print(v,k)
