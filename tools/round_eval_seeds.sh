#!/bin/bash
# tools/round_eval_seeds.sh <dir> <round-no> : confirm every seed in <dir>/out independently (tools/seed_eval.py: suite green with the change,
# demonstration fails with it and passes without it) and record which checks of the snapshot /tmp/vsnap_<dir> fired; 4 workers, own target dirs
D=$1; R=$2
cd "$(dirname "$0")/.."
SNAP=/tmp/vsnap_$(basename $D)
ls $D/out/*.patch 2>/dev/null | sed 's#.*/##; s#\.patch##' | sort > $D/todo.txt
run_one() {
  n=$1; w=$2; D=$3; R=$4; SNAP=$5
  id=${n:0:3}; suf=${n:3:1}
  [ -f $D/done/$n ] && return
  python3 tools/seed_eval.py $id $(echo $suf | tr a-z A-Z) --patch $D/out/$n.patch --demo $D/out/$n.demo.diff --note $D/out/$n.md \
     --suffix $suf --verif $SNAP --round $R --target $D/evtarget_$w > $D/log_$n.txt 2>&1
  touch $D/done/$n
  echo "$n: $(grep -h '^4. checks fired\|NOT CONFIRMED\|kept in\|does not apply' $D/log_$n.txt | tr '\n' ' ' | cut -c1-300)"
}
export -f run_one
mkdir -p $D/done
cat $D/todo.txt | awk -v D=$D -v R=$R -v S=$SNAP '{print $1, NR%4, D, R, S}' | xargs -P 4 -L 1 bash -c 'run_one $0 $1 $2 $3 $4'
