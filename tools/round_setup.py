#!/usr/bin/env python3
"""Development aid: prepares a measurement round for independent sub-agents (prompt files + private worktrees under /tmp/<dir>)
and a snapshot of /verif for the first evaluation.  Nothing from /verif is shown to the agents.

  tools/round_setup.py seeds <round-no> <letterA> <letterB> <special-file> <dir>
  tools/round_setup.py refactors <round-no> <dir>
"""
import json, os, subprocess, sys
V = os.path.dirname(os.path.dirname(os.path.abspath(__file__)))
kind = sys.argv[1]
def sh(c): subprocess.check_call(c, shell=True)
def snapshot(d):
    snap = "/tmp/vsnap_" + os.path.basename(d.rstrip("/"))    # kept outside the directory the agents see
    sh("rm -rf %s; rsync -a --exclude .cache --exclude driver/target --exclude .git %s/ %s/" % (snap, V, snap))
    sh("mkdir -p %s/driver/target/debug; cp %s/driver/target/debug/cwfacts %s/driver/target/debug/" % (snap, V, snap))
if kind == "seeds":
    rnd, A, B, special, d = sys.argv[2:7]
    os.makedirs(os.path.join(d, "out"), exist_ok=True)
    T = open(os.path.join(V, "tools/prompts/seed.txt")).read().replace("{SPECIAL}", open(special).read().strip())
    T = T.replace("{A}", A.upper()).replace("{B}", B.upper()).replace("{a}", A.lower()).replace("{b}", B.lower())
    for l in open(os.path.join(V, "properties.jsonl")):
        p = json.loads(l); i = p["id"]
        t = (T.replace("{ID}", i).replace("{TITLE}", p["title"]).replace("{STATEMENT}", p["statement"]).replace("{QUANT}", p["quantifier"]["text"])
              .replace("{WT}", "%s/wt_%s" % (d, i)).replace("{TGT}", "%s/target_%s" % (d, i)).replace("{OUT}", d + "/out"))
        open("%s/prompt_%s.txt" % (d, i), "w").write(t)
        sh("git -C /repo worktree add --detach %s/wt_%s HEAD -q" % (d, i))
    snapshot(d)
else:
    rnd, d = sys.argv[2:4]
    os.makedirs(os.path.join(d, "out"), exist_ok=True)
    T = open(os.path.join(V, "tools/prompts/refactor_aggressive.txt")).read().replace("{ROUND}", rnd)
    units = [(c, "`contracts/%s` (you may also make small semantics-identical changes to the `packages/*` code it calls)" % c, "-p " + c)
             for c in ("cw1-subkeys", "cw1-whitelist", "cw20-base", "cw20-ics20", "cw3-fixed-multisig", "cw3-flex-multisig", "cw4-group", "cw4-stake")]
    units.append(("pkg-cw3", "`packages/cw3` (shared by cw3-fixed-multisig and cw3-flex-multisig)", "-p cw3 -p cw3-fixed-multisig -p cw3-flex-multisig"))
    units.append(("pkg-cw4", "`packages/cw4` (shared by cw4-group, cw4-stake and cw3-flex-multisig)", "-p cw4 -p cw4-group -p cw4-stake -p cw3-flex-multisig"))
    for name, where, pkgs in units:
        t = (T.replace("{WT}", "%s/wt_%s" % (d, name)).replace("{WHERE}", where).replace("{PKGS}", pkgs).replace("{TGT}", "%s/target_%s" % (d, name))
              .replace("{OUT}", d + "/out").replace("{NAME}", name))
        open("%s/prompt_%s.txt" % (d, name), "w").write(t)
        sh("git -C /repo worktree add --detach %s/wt_%s HEAD -q" % (d, name))
    snapshot(d)
print("ready", d)
