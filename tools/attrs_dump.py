import json,glob,collections,os,sys
d=max(glob.glob(sys.argv[1]+'/*'), key=os.path.getmtime)
print(d)
c=collections.Counter()
for f in glob.glob(d+'/*.json'):
    j=json.load(open(f))
    for p,a in (j.get('adts') or {}).items():
        if not a or not a.get('local'): continue
        for x in a.get('attrs',[]): c[('C',x)]+=1
        for v in a['variants']:
            for x in v.get('attrs',[]): c[('V',x)]+=1
            for fl in v['fields']:
                for x in fl.get('attrs',[]): c[('F',p,fl['name'],x)]+=1
for k,v in sorted(c.items(), key=str): print(v,k)
