#!/usr/bin/env python3
"""Development aid (not used by any registered command): regression of the rules over the whole patch corpus.

  tools/corpus.py build [-j N] [names...]   extract MIR facts once per corpus patch into /tmp/cw-corpus/facts/<name>/
  tools/corpus.py run [-j N] [regex]        evaluate the rules on the stored facts (no cargo), compare with expectations:
       mutants/<ID>/*.patch, seeded/<ID>x (expected_detected)  -> ./check <ID> must raise VIOLATION property=<ID>
       mutants/benign/*.patch, refactors/*.patch               -> ./check --all must stay silent

Facts depend only on the tree and the driver, so rule edits are re-evaluated in seconds.  The facts directory is handed
to ./check through CW_FACTS_DIR (development hook in check; never set by MANIFEST commands)."""
import concurrent.futures as cf
import glob, json, os, re, shutil, subprocess, sys, tempfile

V = os.path.dirname(os.path.dirname(os.path.abspath(__file__)))
BASE = "/tmp/cw-corpus"


def corpus():
    out = []
    for pf in sorted(glob.glob(os.path.join(V, "mutants", "C*", "*.patch"))):
        pid = os.path.basename(os.path.dirname(pf))
        out.append(("mut__%s__%s" % (pid, os.path.basename(pf)[:-6]), pf, "breaking", pid))
    for sd in sorted(glob.glob(os.path.join(V, "seeded", "C*"))):
        meta = json.load(open(os.path.join(sd, "meta.json")))
        if meta.get("expected_detected"):
            out.append(("seed__%s" % os.path.basename(sd), os.path.join(sd, "patch.diff"), "breaking", meta["property"]))
    for pf in sorted(glob.glob(os.path.join(V, "mutants", "benign", "*.patch"))):
        out.append(("benign__%s" % os.path.basename(pf)[:-6], pf, "benign", None))
    rj = os.path.join(V, "refactors", "residual.json")
    residual = set(json.load(open(rj))["residual"]) if os.path.exists(rj) else set()
    for pf in sorted(glob.glob(os.path.join(V, "refactors", "*.patch"))):
        if os.path.basename(pf)[:-6] in residual:
            continue
        out.append(("ref__%s" % os.path.basename(pf)[:-6], pf, "benign", None))
    return out


def build_one(args):
    (name, pf, kind, pid), worker = args
    dst = os.path.join(BASE, "facts", name)
    stamp = os.path.join(dst, "PATCH")
    txt = open(pf).read()
    if os.path.exists(stamp) and open(stamp).read() == txt:
        return name, "cached"
    repo = os.path.join(BASE, "w%d" % worker, "repo")
    cache = os.path.join(BASE, "w%d" % worker, "cache")
    shutil.rmtree(repo, ignore_errors=True)
    os.makedirs(os.path.dirname(repo), exist_ok=True)
    subprocess.check_call(["rsync", "-a", "--exclude", "target", "--exclude", ".git", "/repo/", repo + "/"])
    a = subprocess.run("patch -p1 -s < %s" % pf, cwd=repo, shell=True, stdout=subprocess.PIPE, stderr=subprocess.STDOUT, text=True)
    if a.returncode != 0:
        return name, "PATCH-FAILS"
    r = subprocess.run([sys.executable, "-m", "cwa.extract"], cwd=V, env=dict(os.environ, CW_REPO=repo, CW_CACHE=cache),
                       stdout=subprocess.PIPE, stderr=subprocess.STDOUT, text=True)
    m = re.search(r"\('([^']+)', '([0-9a-f]+)'", r.stdout)
    if r.returncode != 0 or not m:
        shutil.rmtree(dst, ignore_errors=True)
        os.makedirs(dst)
        open(os.path.join(dst, "NOCOMPILE"), "w").write(r.stdout[-3000:])
        open(stamp, "w").write(txt)
        return name, "DOES-NOT-COMPILE"
    shutil.rmtree(dst, ignore_errors=True)
    shutil.copytree(m.group(1), dst)
    shutil.copy(os.path.join(repo, "Cargo.toml"), os.path.join(dst, "Cargo.toml"))     # the one non-Rust input a rule reads
    open(stamp, "w").write(txt)
    return name, "built"


def run_one(item):
    name, pf, kind, pid = item
    dst = os.path.join(BASE, "facts", name)
    if not os.path.exists(os.path.join(dst, "DONE")):
        return name, kind, pid, None, [], "no facts (%s)" % ("does not compile" if os.path.exists(os.path.join(dst, "NOCOMPILE")) else "not built")
    ev = tempfile.mkdtemp(prefix="cwev.")
    try:
        args = [pid] if kind == "breaking" else ["--all"]
        r = subprocess.run([os.path.join(V, "check")] + args, cwd=V, env=dict(os.environ, CW_FACTS_DIR=dst, CW_EVIDENCE_DIR=ev),
                           stdout=subprocess.PIPE, stderr=subprocess.STDOUT, text=True)
    finally:
        shutil.rmtree(ev, ignore_errors=True)
    fired = sorted(set(re.findall(r"^VIOLATION property=(C\d+)", r.stdout, re.M)))
    rules = sorted(set(re.findall(r"^--- (C\d+ \S+) \[", r.stdout, re.M)))
    err = "CHECK-ERROR" in r.stdout or r.returncode == 2
    return name, kind, pid, fired, rules, ("CHECK-ERROR " + r.stdout[-800:]) if err else ""


def main():
    a = sys.argv[1:]
    j = 8
    if "-j" in a:
        i = a.index("-j"); j = int(a[i + 1]); del a[i:i + 2]
    cmd = a[0] if a else "run"
    items = corpus()
    if cmd == "build":
        only = a[1:]
        if only:
            items = [x for x in items if any(o in x[0] for o in only)]
        os.makedirs(os.path.join(BASE, "facts"), exist_ok=True)
        # one worker per slot so that each slot reuses its own cargo target dir
        slots = [[] for _ in range(j)]
        for i, it in enumerate(items):
            slots[i % j].append(it)

        def work(k):
            res = []
            for it in slots[k]:
                res.append(build_one((it, k)))
                print(*res[-1], flush=True)
            return res
        with cf.ThreadPoolExecutor(j) as ex:
            list(ex.map(work, range(j)))
        for k in range(j):
            shutil.rmtree(os.path.join(BASE, "w%d" % k, "repo"), ignore_errors=True)
        return 0
    rx = re.compile(a[1]) if len(a) > 1 else None
    if rx:
        items = [x for x in items if rx.search(x[0])]
    bad = 0
    with cf.ThreadPoolExecutor(j) as ex:
        for name, kind, pid, fired, rules, note in ex.map(run_one, items):
            if fired is None:
                print("SKIP   ", name, note)
                continue
            if note:
                bad += 1
                print("ERROR  ", name, note[:300])
            elif kind == "breaking" and pid not in fired:
                bad += 1
                print("MISSED ", name, "(no VIOLATION of %s)" % pid)
            elif kind == "benign" and fired:
                bad += 1
                print("ALARM  ", name, fired, rules)
            else:
                print("ok     ", name, rules[:4] if kind == "breaking" else "")
    print("corpus: %d patches, %d problem(s)" % (len(items), bad))
    return 1 if bad else 0


sys.exit(main())
