#!/usr/bin/env python3
"""tools/seed_eval.py <ID> <A|B> [--src /tmp/seed/<ID>]
Independently confirms a seeded breakage produced by a sub-agent and runs the checks against it:
 1. scratch copy of /repo + SEED_x.patch : whole workspace test suite must pass (change is invisible to the tests)
 2. + SEED_x_demo.patch                 : the demonstration must FAIL
 3. demo only (source change reverted)  : the demonstration must PASS
 4. ./check --all against the changed tree (no demo) : which properties raise a VIOLATION
Writes /verif/seeded/<ID><x>/{patch.diff,demo.diff,meta.json} when 1-3 hold."""
import json, os, re, shutil, subprocess, sys, tempfile
V = os.path.dirname(os.path.dirname(os.path.abspath(__file__)))
pid, which = sys.argv[1], sys.argv[2]
src = "/tmp/seed/%s" % pid
if "--src" in sys.argv:
    src = sys.argv[sys.argv.index("--src") + 1]
suffix = which.lower()
if "--suffix" in sys.argv:
    suffix = sys.argv[sys.argv.index("--suffix") + 1]
patch = os.path.join(src, "SEED_%s.patch" % which)
demo = os.path.join(src, "SEED_%s_demo.patch" % which)
note = os.path.join(src, "SEED_%s.md" % which)
def _opt(name, default):
    return sys.argv[sys.argv.index(name) + 1] if name in sys.argv else default
patch, demo, note = _opt("--patch", patch), _opt("--demo", demo), _opt("--note", note)
CHECK_V = _opt("--verif", V)          # which copy of the machinery evaluates the seed (a snapshot for first evaluations)
ROUND = int(_opt("--round", "0"))
for f in (patch, demo):
    if not os.path.exists(f):
        sys.exit("missing " + f)
TARGET = _opt("--target", "/tmp/cwtarget")
env = dict(os.environ, CARGO_TARGET_DIR=TARGET, CARGO_NET_OFFLINE="true")

def sh(cmd, cwd, **kw):
    return subprocess.run(cmd, cwd=cwd, shell=True, stdout=subprocess.PIPE, stderr=subprocess.STDOUT, text=True, env=env, **kw)

def patched_files(*patches):
    out = set()
    for pf in patches:
        for l in open(pf):
            m = re.match(r"^(?:\+\+\+|---) [ab]/(\S+)", l)
            if m:
                out.add(m.group(1))
    return out

TOUCHED = os.path.join(TARGET, ".touched")

def fresh_copy(repo):
    """pristine scratch copy whose build cannot be confused with an earlier one in the same target directory: rsync keeps the old
    modification times, so every file an earlier step or run patched (and this one will patch) is touched - cargo then rebuilds
    the crates they belong to instead of reusing an artefact built from the patched version"""
    shutil.rmtree(repo, ignore_errors=True)
    subprocess.check_call(["rsync", "-a", "--exclude", "target", "--exclude", ".git", "/repo/", repo + "/"])
    prev = set(open(TOUCHED).read().split()) if os.path.exists(TOUCHED) else set()
    mine = patched_files(patch, demo)
    for f in prev | mine:
        fp = os.path.join(repo, f)
        if os.path.exists(fp):
            os.utime(fp, None)
    os.makedirs(TARGET, exist_ok=True)
    open(TOUCHED, "w").write("\n".join(sorted(prev | mine)))

def tests(cwd):
    r = sh("cargo test --offline --workspace --no-fail-fast 2>&1", cwd)
    passed = sum(int(m) for m in re.findall(r"test result: \w+\. (\d+) passed", r.stdout))
    failed = sum(int(m) for m in re.findall(r"test result: \w+\. \d+ passed; (\d+) failed", r.stdout))
    failing = re.findall(r"^test (\S+) \.\.\. FAILED", r.stdout, re.M)
    compile_err = "error: could not compile" in r.stdout or re.search(r"^error(\[E\d+\])?:", r.stdout, re.M) is not None and passed == 0
    return passed, failed, failing, compile_err, r.stdout

d = tempfile.mkdtemp(prefix="cwseed.")
res = {"property": pid, "seed": which, "round": ROUND or (2 if "seed2" in src else 1), "source": "independent sub-agent (given only the property text and a scratch worktree)"}
try:
    repo = os.path.join(d, "repo")
    fresh_copy(repo)
    a = sh("patch -p1 < %s" % patch, repo)
    if a.returncode != 0:
        sys.exit("source patch does not apply:\n" + a.stdout)
    p1, f1, fl1, ce1, out1 = tests(repo)
    res["suite_with_change"] = {"passed": p1, "failed": f1, "failing": fl1, "compile_error": bool(ce1)}
    print("1. suite with change: passed=%d failed=%d %s" % (p1, f1, fl1))
    a = sh("patch -p1 < %s" % demo, repo)
    if a.returncode != 0:
        sys.exit("demo patch does not apply:\n" + a.stdout)
    p2, f2, fl2, ce2, out2 = tests(repo)
    res["demo_with_change"] = {"passed": p2, "failed": f2, "failing": fl2, "compile_error": bool(ce2)}
    print("2. demo with change: passed=%d failed=%d %s" % (p2, f2, fl2))
    # demonstration alone: a fresh pristine copy + the demo (reverting the source patch can fail when both touch neighbouring lines)
    fresh_copy(repo)
    a = sh("patch -p1 < %s" % demo, repo)
    if a.returncode != 0:
        sys.exit("demo patch does not apply to the pristine tree:\n" + a.stdout)
    p3, f3, fl3, ce3, out3 = tests(repo)
    res["demo_without_change"] = {"passed": p3, "failed": f3, "failing": fl3, "compile_error": bool(ce3)}
    print("3. demo without change: passed=%d failed=%d %s" % (p3, f3, fl3))
    ok = (f1 == 0 and not ce1 and p1 >= 175) and (f2 >= 1 and not ce2) and (f3 == 0 and not ce3)
    res["confirmed"] = bool(ok)
    # 4. checks against the changed tree (source change only)
    shutil.rmtree(repo)
    subprocess.check_call(["rsync", "-a", "--exclude", "target", "--exclude", ".git", "/repo/", repo + "/"])
    sh("patch -p1 < %s" % patch, repo)
    ev = os.path.join(d, "ev")
    os.makedirs(ev)
    e2 = dict(os.environ, CW_REPO=repo, CW_EVIDENCE_DIR=ev)
    e2["CW_CACHE"] = os.path.join(d, "cache") if CHECK_V != V else e2.get("CW_CACHE", os.path.join(V, ".cache"))
    r = subprocess.run([os.path.join(CHECK_V, "check"), "--all"], cwd=CHECK_V, env=e2, stdout=subprocess.PIPE, stderr=subprocess.STDOUT, text=True)
    fired = sorted(set(re.findall(r"^VIOLATION property=(C\d+)", r.stdout, re.M)))
    rules = sorted(set(re.findall(r"^--- (C\d+ R[\d.]+) \[", r.stdout, re.M)))
    res["checks_fired"] = fired
    res["rules_fired"] = rules
    res["detected_by_own_property"] = pid in fired
    print("4. checks fired:", fired, rules)
    det = [l for l in r.stdout.splitlines() if l.startswith(("--- ", "    ")) and not l.startswith("    rule:")]
    res["diagnostics"] = det[:14]
    if ok:
        out = os.path.join(V, "seeded", pid + suffix)
        os.makedirs(out, exist_ok=True)
        shutil.copy(patch, os.path.join(out, "patch.diff"))
        shutil.copy(demo, os.path.join(out, "demo.diff"))
        res["needs_to_manifest"] = open(note).read() if os.path.exists(note) else ""
        res["what_i_ran"] = ["cargo test --offline --workspace --no-fail-fast (scratch copy + patch.diff): all pass",
                             "same + demo.diff: demonstration fails", "demo.diff only: demonstration passes",
                             "CW_REPO=<scratch copy + patch.diff> ./check --all"]
        json.dump(res, open(os.path.join(out, "meta.json"), "w"), indent=1)
        print("kept in", out)
    else:
        print("NOT CONFIRMED:", json.dumps(res, indent=1)[:1500])
        if ce1 or ce2 or ce3:
            print((out1 if ce1 else out2 if ce2 else out3)[-1500:])
finally:
    shutil.rmtree(d, ignore_errors=True)
