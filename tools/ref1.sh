#!/bin/bash
# tools/ref1.sh <refactor-name> [check args...] : scratch copy of /repo + refactors/<name>.patch under /tmp/ref1/<name>, then ./check
set -e
V=$(cd "$(dirname "$0")/.." && pwd)
n=$1; shift
d=/tmp/ref1/$n
if [ ! -d $d ]; then
  mkdir -p $d
  rsync -a --exclude target --exclude .git /repo/ $d/
  (cd $d && patch -p1 -s < $V/refactors/$n.patch)
fi
CW_REPO=$d CW_EVIDENCE_DIR=/tmp/ref1/ev $V/check "${@:---all}"
