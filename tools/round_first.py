#!/usr/bin/env python3
"""Development aid: first evaluation of the patches in <dir>/out against the snapshot <dir>/verif_snap (taken before the agents ran).
  tools/round_first.py <dir> seeds|refactors        -> <dir>/first.json"""
import glob, json, os, re, shutil, subprocess, sys
D, kind = sys.argv[1], sys.argv[2]
V = "/tmp/vsnap_" + os.path.basename(D.rstrip("/")); rf = os.path.join(D, "first.json")
res = json.load(open(rf)) if os.path.exists(rf) else {}
d = os.path.join(D, "evalscratch")
for pf in sorted(glob.glob(os.path.join(D, "out", "*.patch"))):
    name = os.path.basename(pf)[:-6]
    if name in res:
        continue
    repo = os.path.join(d, "repo"); shutil.rmtree(repo, ignore_errors=True); os.makedirs(d, exist_ok=True)
    subprocess.check_call(["rsync", "-a", "--exclude", "target", "--exclude", ".git", "/repo/", repo + "/"])
    a = subprocess.run("patch -p1 -s < %s" % pf, cwd=repo, shell=True, stdout=subprocess.PIPE, stderr=subprocess.STDOUT, text=True)
    if a.returncode != 0:
        print(name, "PATCH DOES NOT APPLY", a.stdout[-200:]); res[name] = {"applies": False}; continue
    ev = os.path.join(d, "ev"); os.makedirs(ev, exist_ok=True)
    r = subprocess.run([os.path.join(V, "check"), "--all"], cwd=V, env=dict(os.environ, CW_REPO=repo, CW_EVIDENCE_DIR=ev, CW_CACHE=os.path.join(D, "cache")),
                       stdout=subprocess.PIPE, stderr=subprocess.STDOUT, text=True)
    fired = sorted(set(re.findall(r"^VIOLATION property=(C\d+)", r.stdout, re.M)))
    rules = sorted(set(re.findall(r"^--- (C\d+ \S+) \[", r.stdout, re.M)))
    diag = [l for l in r.stdout.splitlines() if l.startswith(("--- ", "    ")) and not l.startswith("    rule:")][:60]
    res[name] = {"applies": True, "alarms": fired, "rules": rules, "check_error": "CHECK-ERROR" in r.stdout, "diagnostics": diag}
    if kind == "seeds":
        res[name]["own"] = name[:3] in fired
        print(name, "OWN" if name[:3] in fired else "MISSED", fired, rules[:8], flush=True)
    else:
        print(name, "ALARMS" if fired or "CHECK-ERROR" in r.stdout else "silent", fired, rules, flush=True)
    json.dump(res, open(rf, "w"), indent=1)
shutil.rmtree(d, ignore_errors=True)
