#!/bin/bash
# usage: tools/mutant.sh <patch.diff> <ID...>   -- run checks against a scratch copy of /repo with the patch applied
set -e
PATCH=$(readlink -f "$1"); shift
D=$(mktemp -d /tmp/cwmut.XXXXXX)
trap 'rm -rf "$D"' EXIT
rsync -a --exclude target --exclude .git /repo/ "$D/repo/"
( cd "$D/repo" && patch -p1 -s < "$PATCH" )
mkdir -p "$D/ev"
cd /verif
CW_REPO="$D/repo" CW_EVIDENCE_DIR="$D/ev" ./check "$@" || true
