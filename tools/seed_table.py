#!/usr/bin/env python3
"""tools/seed_table.py [suffixes] - markdown catch matrix of the kept seeds from seeded/*/meta.json"""
import glob, json, os, sys
V = os.path.dirname(os.path.dirname(os.path.abspath(__file__)))
suf = sys.argv[1] if len(sys.argv) > 1 else "abcd"
print("| seed | property | what the change is (from the agent's note) | rules that fire now | first evaluation |")
print("|---|---|---|---|---|")
for sd in sorted(glob.glob(os.path.join(V, "seeded", "C*"))):
    name = os.path.basename(sd)
    if name[-1] not in suf:
        continue
    m = json.load(open(os.path.join(sd, "meta.json")))
    fe = m.get("first_evaluation") or {}
    own = fe.get("detected_by_own_property")
    first = "own property fired" if own else "own property silent; fired: %s" % (", ".join(x for x in (fe.get("checks_fired") or [])) or "nothing")
    what = (m.get("what") or m.get("needs_to_manifest") or "").strip().splitlines()
    what = what[0][:170].replace("|", "/") if what else ""
    print("| %s | %s | %s | %s | %s |" % (name, m["property"], what, ", ".join(m.get("rules_fired") or []), first))
