#!/usr/bin/env python3
"""tools/refactor_eval.py [names...] - run ./check --all against every behaviour-preserving refactoring in refactors/*.patch
(scratch copy of /repo + patch).  Any VIOLATION is a false alarm to triage.  Writes refactors/results.json."""
import glob, json, os, re, shutil, subprocess, sys, tempfile
V = os.path.dirname(os.path.dirname(os.path.abspath(__file__)))
only = sys.argv[1:]
res = {}
rf = os.path.join(V, "refactors", "results.json")
if os.path.exists(rf):
    res = json.load(open(rf))
d = tempfile.mkdtemp(prefix="cwref.")
try:
    for pf in sorted(glob.glob(os.path.join(V, "refactors", "*.patch"))):
        name = os.path.basename(pf)[:-6]
        if only and name not in only:
            continue
        repo = os.path.join(d, "repo")
        shutil.rmtree(repo, ignore_errors=True)
        subprocess.check_call(["rsync", "-a", "--exclude", "target", "--exclude", ".git", "/repo/", repo + "/"])
        a = subprocess.run("patch -p1 -s < %s" % pf, cwd=repo, shell=True, stdout=subprocess.PIPE, stderr=subprocess.STDOUT, text=True)
        if a.returncode != 0:
            print(name, "PATCH DOES NOT APPLY", a.stdout[-300:]); res[name] = {"applies": False}; continue
        ev = os.path.join(d, "ev"); os.makedirs(ev, exist_ok=True)
        r = subprocess.run([os.path.join(V, "check"), "--all"], cwd=V, env=dict(os.environ, CW_REPO=repo, CW_EVIDENCE_DIR=ev),
                           stdout=subprocess.PIPE, stderr=subprocess.STDOUT, text=True)
        fired = sorted(set(re.findall(r"^VIOLATION property=(C\d+)", r.stdout, re.M)))
        rules = sorted(set(re.findall(r"^--- (C\d+ \S+) \[", r.stdout, re.M)))
        errs = "CHECK-ERROR" in r.stdout
        diag = [l for l in r.stdout.splitlines() if l.startswith(("--- ", "    ")) and not l.startswith("    rule:")][:60]
        res[name] = {"applies": True, "alarms": fired, "rules": rules, "check_error": errs, "diagnostics": diag}
        print(name, "ALARMS" if fired or errs else "silent", fired, rules, flush=True)
        json.dump(res, open(rf, "w"), indent=1)
finally:
    shutil.rmtree(d, ignore_errors=True)
